#!/usr/bin/python3
"""Run make-single-file as it would behave on a case-insensitive, case-preserving file system
(macOS APFS/HFS+ default, Windows NTFS): open() and os.listdir() resolve names without regard to case.
usage: casefold_shim.py <args for make-single-file>"""
import builtins, os, runpy, sys
_open = builtins.open
def resolve(path):
    if not isinstance(path, str) or os.path.exists(path):
        return path
    parts = path.split("/")
    cur = "/" if path.startswith("/") else "."
    for p in parts:
        if p in ("", "."):
            continue
        if p == "..":
            cur = os.path.join(cur, p); continue
        try:
            names = os.listdir(cur)
        except OSError:
            return path
        hit = [n for n in names if n.lower() == p.lower()]
        if not hit:
            return path
        cur = os.path.join(cur, hit[0])
    return cur
def ci_open(file, *a, **k):
    return _open(resolve(file), *a, **k)
builtins.open = ci_open
script = "/tmp/r12d/tools/bin/make-single-file"
sys.argv = [script] + sys.argv[1:]
runpy.run_path(script, run_name="__main__")
