// F6: Quantity<U,R>::unit, QuantityPoint<U,R>::unit, QuantityMaker<U>::unit and
// QuantityPointMaker<U>::unit are documented public static constexpr data members
// (docs/reference/quantity.md "::unit", quantity_point.md "::unit") but have no namespace-scope
// definition (au/quantity.hh:113,567; au/quantity_point.hh:92,251).  Until C++17 made such members
// implicitly inline, any odr-use (binding a reference) needs that definition -> link error in C++14.
#include "au/au.hh"
#include "au/units/meters.hh"
#include <cstdio>
using namespace au;
template <typename UnitSlot>
const char *label_of(const UnitSlot &u) { return unit_label(u); }
int main() {
    std::printf("%s\n", label_of(QuantityD<Meters>::unit));
    std::printf("%s\n", label_of(decltype(meters)::unit));
}
