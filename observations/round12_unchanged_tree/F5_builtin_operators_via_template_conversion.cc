// F5: the documented implicit conversions "unitless Quantity -> Rep" (au/quantity.hh:352) and
// "Zero -> any arithmetic type" (au/zero.hh:39) are conversion function *templates*.  When such an
// object is an operand of a built-in operator for which Au declares no overload (bitwise operators,
// shifts, subscripting, pointer arithmetic), clang++ considers the template when it builds the
// built-in candidate set and accepts; g++ does not and reports "no match for operator".
#include "au/au.hh"
#include "au/units/meters.hh"
#include "au/units/unos.hh"
#include <cstdio>
using namespace au;
int main() {
    const int table[3] = {7, 8, 9};
    const auto ratio = meters(6) / unblock_int_div(meters(3));  // Quantity<UnitProduct<>, int>
#if !defined(PART) || PART == 1
    std::printf("%d\n", ratio & 1);
#endif
#if !defined(PART) || PART == 2
    std::printf("%d\n", 1 << unos(3));
#endif
#if !defined(PART) || PART == 3
    std::printf("%d\n", table[ZERO]);
#endif
#if !defined(PART) || PART == 4
    double x = 1.0;
    x += unos(2.5);
    std::printf("%g\n", x);
#endif
}
