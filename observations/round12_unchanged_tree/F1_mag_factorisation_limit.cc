// F1: mag<N>() for a semiprime N whose two prime factors are both around 3e7.
// Pollard's rho (au/utility/factoring.hh: find_pollard_rho_factor) needs a few thousand
// iterations; that fits in g++'s default constexpr budget (-fconstexpr-ops-limit=33554432,
// -fconstexpr-loop-limit=262144) but not in clang++'s (-fconstexpr-steps=1048576).
#include "au/au.hh"
#include <cstdio>
using namespace au;
int main() {
    // 900003300000109 = 30000001 * 30000109
    constexpr auto m = mag<900003300000109u>();
    std::printf("%llu\n", static_cast<unsigned long long>(get_value<std::uint64_t>(m)));
}
