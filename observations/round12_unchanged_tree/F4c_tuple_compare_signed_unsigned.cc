// F4c: same mechanism again.  Au's operator<=> ends in `int <=> unsigned`, which is ill-formed
// (narrowing).  clang++ diagnoses it; g++ 12 does not diagnose it inside this template and compares
// as unsigned.  So: five configurations accept, clang++ -std=c++20 rejects.
#include "au/au.hh"
#include "au/units/meters.hh"
#include <cstdio>
#include <tuple>
using namespace au;
int main() {
    std::tuple<Quantity<Meters, int>> a{meters(-1)};
    std::tuple<Quantity<Meters, unsigned>> b{meters(1u)};
    std::printf("%d\n", a < b);
}
