#!/bin/bash
# F1: the generator identifies a file by the way its name was SPELLED, not by which file it is.  The same header reached under
# two spellings is emitted twice; exit status 0; every program is then rejected (redefinitions).
export GIT_OPTIONAL_LOCKS=0
D=/tmp/r12d_deliv; O=$D/out; I=$O/iso_f1; mkdir -p $I; cd /tmp/r12d || exit 1
g++ -std=c++14 -DTREE -Iau/code $D/prog_basic.cc -o $O/f1_tree && echo "against the tree: $($O/f1_tree)"
t() { # label, generator command...
  local label="$1"; shift
  "$@" > $I/au.hh 2>/dev/null; local st=$?
  local n=$(grep -c '^struct Feet ' $I/au.hh)
  if (cd $I && g++ -std=c++14 -include au.hh $D/prog_basic.cc -o p 2>err.txt); then r="accepted, prints $($I/p)"; else r="REJECTED: $(grep -m1 error $I/err.txt | cut -c1-80)"; fi
  printf '%-62s exit=%s  "struct Feet" x%s  %s\n' "$label" $st $n "$r"
}
G=tools/bin/make-single-file
t "au/units/feet.hh --units yards          (control)"  $G au/units/feet.hh --units yards
t "./au/units/feet.hh --units yards"                   $G ./au/units/feet.hh --units yards
t "\$PWD/au/code/au/units/feet.hh --units yards"       $G $PWD/au/code/au/units/feet.hh --units yards
t "au//units/feet.hh --units yards"                    $G au//units/feet.hh --units yards
t "--units feet ./feet yards"                          $G --units feet ./feet yards
t "--units yards ../units/feet"                        $G --units yards ../units/feet
t "--constants ../units/feet --units yards"            $G --constants ../units/feet --units yards
echo "--- case-insensitive file system (macOS, Windows), simulated by casefold_shim.py:"
t "--units Feet yards   [case-insensitive fs]"         python3 $D/casefold_shim.py --units Feet yards
t "--units Seconds feet yards [case-insensitive fs]"   python3 $D/casefold_shim.py --units Seconds feet yards
echo "--- the tree itself does not mind the spelling:"
printf '#include "au/au.hh"\n#include "au/io.hh"\n#include "au/units/feet.hh"\n#include "./au/units/feet.hh"\n#include "au//units/feet.hh"\n#include "au/units/yards.hh"\n#include <iostream>\nint main() { std::cout << au::yards(3).as(au::feet) << "\\n"; }\n' > $O/f1_spell.cc
g++ -std=c++14 -Iau/code $O/f1_spell.cc -o $O/f1_spell && echo "tree, three spellings of feet.hh in one TU: $($O/f1_spell)"
