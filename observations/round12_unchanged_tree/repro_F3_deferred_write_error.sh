#!/bin/bash
# F3: a write error that the kernel reports only at close(2)/fsync(2) (NFS, quota, FUSE/cluster file systems with a
# write-back cache) is never seen by make-single-file: it exits 0 and the file is truncated.  Needs root (raw FUSE mount).
export GIT_OPTIONAL_LOCKS=0
D=/tmp/r12d_deliv; O=$D/out; M=$O/mnt; B=$O/quota_backing
umount -l $M 2>/dev/null; rm -rf $B; mkdir -p $M $B
QUOTAFS_ERRNO=${1:-EDQUOT} setsid python3 $D/quotafs.py $M $B 100000 >/dev/null 2>&1 &
sleep 1; mount | grep -q quotafs || { echo "mount failed"; exit 1; }
cd /tmp/r12d
tools/bin/make-single-file --all-units --all-constants --version-id v > $O/ref_all.hh
echo "reference header: $(stat -c %s $O/ref_all.hh) bytes; quota on the mount: 100000 bytes"
cat $O/ref_all.hh > $M/cat.hh;  echo "GNU cat          : exit=$?  (it closes stdout and checks)"
tools/bin/make-single-file --all-units --all-constants --version-id v > $M/au.hh; echo "make-single-file : exit=$?"
python3 -u tools/bin/make-single-file --all-units --all-constants --version-id v > $M/au_u.hh; echo "make-single-file (python -u): exit=$?"
sleep 0.5
echo "server-side sizes: au.hh=$(stat -c %s $B/au.hh) au_u.hh=$(stat -c %s $B/au_u.hh)"
tail -c 120 $B/au.hh; echo; echo "[... end of delivered file]"
mkdir -p $O/iso_f3 && cp $B/au.hh $O/iso_f3/au.hh
(cd $O/iso_f3 && g++ -std=c++14 -include au.hh $D/prog_seconds.cc -o p 2>&1 | grep -m2 error)
umount -l $M
