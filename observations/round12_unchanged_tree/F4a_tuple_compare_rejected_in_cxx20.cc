// F4a: heterogeneous std::tuple comparison.  Before C++20 libstdc++ uses operator<, which Au
// implements by casting both sides to the common rep first and only then changing units.  In C++20
// libstdc++ uses operator<=> (synth-three-way); Au's operator<=> (au/quantity.hh:836-842) converts
// each side to the common unit *in its own rep* with the checked `.in(U{})`, so the overflow-risk
// static_assert fires for the 16-bit side.
#include "au/au.hh"
#include "au/units/meters.hh"
#include <cstdint>
#include <cstdio>
#include <tuple>
using namespace au;
int main() {
    std::tuple<Quantity<Meters, int16_t>> a{meters(int16_t{1})};
    std::tuple<Quantity<Milli<Meters>, int>> b{milli(meters)(3)};
    std::printf("%d %d\n", a < b, std::get<0>(a) < std::get<0>(b));
}
