// F3: will_conversion_truncate<T>() / is_conversion_lossy<T>() are documented as `constexpr`
// (docs/reference/quantity.md, "Runtime conversion checkers").  With a floating point source and an
// integral target they reach detail::StaticCastTruncateImpl<..., FLOAT_TO_INTEGRAL>, which calls
// std::trunc (au/static_cast_checkers.hh:196).  g++ folds it, clang++ 14 cannot.
#include "au/au.hh"
#include "au/units/meters.hh"
#include "au/units/feet.hh"
#include <cstdio>
using namespace au;
constexpr bool a = will_conversion_truncate<int>(meters(2.5), meters);
constexpr bool b = is_conversion_lossy<int>(feet(2.5f), meters);
static_assert(a && b, "");
int main() { std::printf("%d %d\n", a, b); }
