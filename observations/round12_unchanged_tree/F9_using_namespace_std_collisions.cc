// F9: programs that combine `using namespace std;` with `using namespace au;` (legal, and common in
// small programs) change meaning with the language standard because newer standards add names that
// Au also uses:
//   PART 1  au::byte (singular name for Bytes)  vs  std::byte (C++17)         -> ambiguous from C++17
//   PART 2  au::clamp(QuantityPoint x3) template vs  std::clamp (C++17)       -> ambiguous from C++17
//           (math.hh has tie-breaking overloads of min/max for identical QuantityPoint types,
//            au/math.hh:341-345 and 373-377, but none for clamp)
//   PART 3  au::days  vs  std::chrono::days (C++20), with `using namespace std::chrono;`
#include "au/au.hh"
#include "au/io.hh"
#include "au/units/bits.hh"
#include "au/units/bytes.hh"
#include "au/units/celsius.hh"
#include "au/units/days.hh"
#include "au/units/hours.hh"
#include <algorithm>
#include <chrono>
#include <cstddef>
#include <iostream>
using namespace std;
using namespace au;
int main() {
#if !defined(PART) || PART == 1
    cout << bits(16.0).as(byte) << "\n";
#endif
#if !defined(PART) || PART == 2
    cout << clamp(celsius_pt(5), celsius_pt(0), celsius_pt(3)) << "\n";
#endif
#if !defined(PART) || PART == 3
    {
        using namespace std::chrono;
        cout << au::hours(48.0).as(days) << "\n";
    }
#endif
}
