#!/bin/bash
# Usage: six.sh file.cc [extra flags...]
# Builds file.cc under {g++, clang++} x {c++14, c++17, c++20} against the multi-header tree,
# runs what compiled, and prints one verdict line per configuration plus an md5 of the output.
# Set V=1 to see the program output, E=1 to see the first error lines of rejected builds.
src=$1; shift
inc=${AU_INC:-/tmp/r12c/au/code}
tmp=$(mktemp -d /tmp/six.XXXXXX)
base=$(basename "$src" .cc)
run_one() {
  cxx=$1; std=$2; shift 2
  tag="$cxx-$std"
  if $cxx -std=$std -I"$inc" -w "$@" "$src" -o "$tmp/$tag" 2>"$tmp/$tag.err"; then
    "$tmp/$tag" >"$tmp/$tag.out" 2>&1; echo "rc=$?" >>"$tmp/$tag.out"
    echo ACCEPT >"$tmp/$tag.verdict"
  else
    echo REJECT >"$tmp/$tag.verdict"
  fi
}
# at most 3 in parallel
for std in c++14 c++17 c++20; do
  ( run_one g++ $std "$@"; run_one clang++ $std "$@" ) &
done
wait
ref=""
div=0
for cxx in g++ clang++; do for std in c++14 c++17 c++20; do
  tag="$cxx-$std"
  v=$(cat "$tmp/$tag.verdict")
  if [ "$v" = ACCEPT ]; then sum=$(md5sum <"$tmp/$tag.out" | cut -c1-8); else sum=--------; fi
  key="$v$sum"
  [ -z "$ref" ] && ref="$key"
  [ "$key" != "$ref" ] && div=1
  printf '%-14s %s %s\n' "$tag" "$v" "$sum"
  if [ "$v" = REJECT ] && [ -n "$E" ]; then grep -m${E} -E 'error' "$tmp/$tag.err" | cut -c1-400; fi
  if [ "$v" = ACCEPT ] && [ -n "$V" ]; then cat "$tmp/$tag.out"; fi
done; done
if [ $div = 1 ]; then echo "== $base: DIVERGENCE"; else echo "== $base: uniform"; fi
if [ -n "$KEEP" ]; then echo "kept $tmp"; else rm -rf "$tmp"; fi
