// F8: a user-defined irrational magnitude base (docs/reference/magnitude.md, "Custom bases") whose
// value is below one.  detail::checked_int_pow (au/magnitude.hh:318-338) guards against overflow
// with `base > std::numeric_limits<T>::max() / base`; for base < 1 that quotient itself overflows
// long double.  g++ refuses to treat the overflowing division as a constant expression; clang++
// folds it to +inf and carries on.  Same family as the already repaired will_conversion_overflow.
#include "au/au.hh"
#include "au/io.hh"
#include "au/units/meters.hh"
#include <iostream>
using namespace au;
struct Ln2 {
    static constexpr long double value() { return 0.693147180559945309417232121458176568L; }
};
struct Nepers : decltype(Meters{} * Magnitude<Ln2>{}) {};
int main() {
    std::cout << get_value<double>(Magnitude<Ln2>{}) << "\n";
    std::cout << make_quantity<Nepers>(2.0).as(meters) << "\n";
}
