// N1 (not attributable to Au): floating point overflow to infinity inside a constant expression.
// g++ rejects ("overflow in constant expression"), clang++ accepts and yields inf.  The same happens
// with `constexpr double d = DBL_MAX * 2.0;` and no Au code at all.
#include "au/au.hh"
#include "au/units/meters.hh"
#include <cstdio>
#include <limits>
using namespace au;
constexpr auto q = meters(std::numeric_limits<double>::max()) * 2.0;
constexpr auto r = meters(std::numeric_limits<double>::max()).as(milli(meters));
int main() { std::printf("%g %g\n", q.in(meters), r.in(milli(meters))); }
