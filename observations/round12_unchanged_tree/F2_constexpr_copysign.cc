// F2: au::copysign is documented (docs/reference/math.md) and declared `constexpr`, but it forwards
// to std::copysign.  libstdc++ declares only the float and long double overloads constexpr; the
// double overload is the C library's ::copysign.  g++ folds that builtin anyway, clang++ does not.
#include "au/au.hh"
#include "au/units/meters.hh"
#include <cstdio>
using namespace au;
constexpr auto q = copysign(meters(3.0), -1.0);      // double rep
constexpr auto r = copysign(meters(3), meters(-2));  // int rep (promoted to double by std::copysign)
int main() { std::printf("%g %g\n", q.in(meters), static_cast<double>(r.in(meters))); }
