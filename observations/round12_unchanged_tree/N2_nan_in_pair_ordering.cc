// N2 (standard library change, surfaced because Au provides operator<=>): ordering of std::pair
// with a NaN quantity.  Identical to what std::pair<double,int> does.
#include "au/au.hh"
#include "au/units/meters.hh"
#include <cstdio>
#include <limits>
#include <utility>
using namespace au;
int main() {
    const auto nan = std::numeric_limits<double>::quiet_NaN();
    std::pair<QuantityD<Meters>, int> a{meters(nan), 1}, b{meters(nan), 2};
    std::printf("%d %d\n", a < b, b < a);
}
