#!/bin/bash
# F2: --version-id is copied verbatim into a // comment.  A line feed OR a lone carriage return in it ends the comment
# (gcc and clang both treat a lone CR as end of line); whatever follows becomes code.  Exit status 0.
export GIT_OPTIONAL_LOCKS=0
D=/tmp/r12d_deliv; O=$D/out; I=$O/iso_f2; mkdir -p $I; cd /tmp/r12d || exit 1
t() { local label="$1"; shift
  tools/bin/make-single-file --units feet yards "$@" > $I/au.hh; local st=$?; local res=""
  for cxx in "g++ -std=c++14" "clang++ -std=c++20"; do
    if (cd $I && $cxx -w -include au.hh $D/prog_basic.cc -o p 2>err.txt); then res="$res [$cxx: accepted, prints '$($I/p)']"; else res="$res [$cxx: REJECTED $(grep -m1 error $I/err.txt | cut -c1-70)]"; fi
  done
  printf '%-46s exit=%s %s\n' "$label" $st "$res"; }
t 'control: --version-id v1'                       --version-id v1
t 'id ends in backslash (harmless)'                --version-id 'v1\'
t 'id ends in ??/ (harmless)'                      --version-id 'v1??/'
t 'id = "$(git describe --always; date)"'          --version-id "$(git describe --always; date)"
t 'id with LF + directive (#define feet inches)'   --version-id $'v1\n#define feet inches'
t 'id with lone CR'                                --version-id $'v1\rbuilt by jenkins'
t 'id with LF, second line a comment (harmless)'   --version-id $'v1\n// built by jenkins'
echo "--- silent change of meaning rather than rejection:"
cat > $O/f2_pi.cc <<'E2'
#ifdef TREE
#include "au/au.hh"
#endif
#include <cstdio>
int main() {
#ifdef PI
    std::printf("PI is a macro: %g\n", (double)PI);
#else
    std::printf("PI is au::PI\n");
#endif
}
E2
g++ -std=c++14 -w -DTREE -Iau/code $O/f2_pi.cc -o $O/f2_tree && echo "tree  : $($O/f2_tree)"
tools/bin/make-single-file --version-id $'v1\n#define PI 3' > $I/au.hh; echo "generator exit=$?"
(cd $I && g++ -std=c++14 -w -include au.hh $O/f2_pi.cc -o p && echo "single: $(./p)")
