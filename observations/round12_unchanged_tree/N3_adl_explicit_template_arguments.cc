// N3 (language change P0846, not attributable to Au): calling an Au function template with explicit
// template arguments through ADL only, i.e. without `au::` and without a using-directive.
// g++ accepts only in C++20; clang++ accepts in all modes as an extension -- unless ordinary lookup
// finds a non-template of that name (PART 2: `pow` from <cmath>), in which case only C++20 works.
#include "au/au.hh"
#include "au/io.hh"
#include "au/units/meters.hh"
#include <cmath>
#include <iostream>
namespace user {
void f() {
    const auto q = au::meters(6.5);
#if !defined(PART) || PART == 1
    std::cout << rep_cast<int>(q) << "\n";
#endif
#if !defined(PART) || PART == 2
    std::cout << unit_label(pow<2>(au::meters)) << "\n";
#endif
}
}  // namespace user
int main() { user::f(); }
