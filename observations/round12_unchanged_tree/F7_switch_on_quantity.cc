// F7: an integral-rep Quantity converts implicitly to its (scoped enum) NTTP type, and
// `case meters(1):` is a converted constant expression of that enum type, so `switch` on a Quantity
// is well-formed and clang++ accepts it.  g++ rejects it: while looking for the contextual implicit
// conversion it trips over the deleted catch-all conversion function template
// `template <typename C, C x = C::ENUM_VALUES_ARE_UNUSED> operator C() const = delete;`
// (au/quantity.hh:387) -- "default type conversion cannot deduce template argument".
#include "au/au.hh"
#include "au/units/meters.hh"
#include <cstdio>
using namespace au;
int main() {
    const auto q = meters(2);
    switch (q) {
        case meters(1): std::puts("one"); break;
        case meters(2): std::puts("two"); break;
        default: std::puts("other"); break;
    }
}
