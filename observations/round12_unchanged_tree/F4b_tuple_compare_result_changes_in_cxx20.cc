// F4b: same mechanism as F4a, but here every configuration accepts and C++20 prints a different
// answer.  All arithmetic is unsigned, so nothing is undefined: 5'000'000 m * 1000 wraps in
// uint32_t (operator<=> path) but not in uint64_t (operator< path).
#include "au/au.hh"
#include "au/units/meters.hh"
#include <cstdint>
#include <cstdio>
#include <tuple>
using namespace au;
int main() {
    std::tuple<Quantity<Meters, uint32_t>> a{meters(uint32_t{5000000})};
    std::tuple<Quantity<Milli<Meters>, uint64_t>> b{milli(meters)(uint64_t{1000000000})};
    std::printf("tuple: a<b=%d a>b=%d   elements: a<b=%d a>b=%d\n", a < b, a > b,
                std::get<0>(a) < std::get<0>(b), std::get<0>(a) > std::get<0>(b));
}
