#!/usr/bin/python3
"""Development aid: compile every API fragment on its own (and all of them together), with and
without I/O, under all six toolchains against the multi-header tree, and require identical
acceptance and output.  Run after editing sim/apisurface.py; a fragment that is itself
standard- or compiler-dependent would otherwise show up as a false TOOLCHAIN_DEPENDENT."""
import os
import shutil
import sys
import tempfile
from concurrent.futures import ThreadPoolExecutor

sys.path.insert(0, os.path.dirname(os.path.dirname(os.path.abspath(__file__))))
from sim import apisurface, oracle, plan as P, probe, tree  # noqa: E402


def main():
    t = tree.Tree()
    d = tempfile.mkdtemp(prefix="au-verif-frag-")
    b = oracle.Builder(d, t)
    names = sys.argv[1:] or apisurface.names()
    groups = [[n] for n in names] + ([names] if len(names) > 1 else [])
    # all six configurations at -O0, and the two C++14 ones again at -O2 (libm versus constant
    # folding: a fragment must not print a libm result that is not correctly rounded at full precision)
    tcs = list(P.all_toolchains()) + [("g++", "c++14", "-O2"), ("clang++", "c++17", "-O2")]
    jobs = [(g, io, tc) for g in groups for io in (True, False) for tc in tcs]

    def run(j):
        g, io, tc = j
        sel = {"units": [], "constants": [], "io": io, "main_files": []}
        return j, b.build("multi", None, probe.sources(t, sel, {"include_order": None, "api": g}, "multi"), tc)

    res = {}
    try:
        with ThreadPoolExecutor(os.cpu_count() or 4) as ex:
            for (g, io, tc), r in ex.map(run, jobs):
                res.setdefault((tuple(g), io), []).append((tc, r))
    finally:
        shutil.rmtree(d, ignore_errors=True)
    bad = 0
    for (g, io), rs in sorted(res.items(), key=lambda kv: (len(kv[0][0]), kv[0])):
        outs = {r["stdout"] if r["ok"] else "REJECT: " + r["diag"][:200] for _, r in rs}
        label = g[0] if len(g) == 1 else "<all %d fragments>" % len(g)
        if len(outs) != 1 or not all(r["ok"] for _, r in rs):
            bad += 1
            print("PROBLEM %-24s io=%s" % (label, io))
            for tc, r in rs:
                print("    %s: %s" % ("/".join(tc), "ok" if r["ok"] else r["diag"][:300].replace("\n", " | ")))
    print("%d fragment groups x {io,noio} x 8 configurations checked, %d problems" % (len(groups), bad))
    return 1 if bad else 0


if __name__ == "__main__":
    sys.exit(main())
