#!/bin/bash
# usage: tools/regress.sh <outdir>   -- runs the quick tier against every hand-written mutant and every
# seeded change (each in its own scratch worktree under /tmp) and writes <outdir>/mutants.json and
# <outdir>/seeded.json.
set -u
HERE=$(cd "$(dirname "$0")/.." && pwd)
OUT=${1:?outdir}
mkdir -p "$OUT"
D=$(mktemp -d /tmp/au-verif-regress-XXXXXX)
trap 'rm -rf "$D"' EXIT
python3 - "$HERE" "$D" <<'PY'
import json, os, shutil, sys
here, d = sys.argv[1], sys.argv[2]
exp = {}
for name in sorted(os.listdir(os.path.join(here, "seeded"))):
    p = os.path.join(here, "seeded", name, "patch.diff")
    if os.path.exists(p):
        shutil.copy(p, os.path.join(d, name + ".diff"))
        exp[name] = {"expect": ["any"]}
json.dump(exp, open(os.path.join(d, "expect.json"), "w"))
PY
VERIF_MIN_GROUPS=1 python3 "$HERE/sim/sensitivity.py" --dir "$D" --out "$OUT/seeded.json"
VERIF_MIN_GROUPS=1 python3 "$HERE/sim/sensitivity.py" --dir "$HERE/mutants" --out "$OUT/mutants.json"
