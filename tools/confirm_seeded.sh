#!/bin/bash
# usage: tools/confirm_seeded.sh <dir with patch.diff and demo.sh> [--no-suite]
# Confirms a seeded change in a scratch worktree outside /repo and /verif:
#   1. demo passes on the clean tree, 2. patch applies, 3. demo fails on the patched tree,
#   4. if the patch touches anything the test-suite builds (au/, CMake files): the baseline suite
#      is built and run on the patched tree and must pass.
# Prints one JSON object; removes the worktree and its build output.
set -u
D=$(cd "$1" && pwd)
SUITE=${2:-}
WT=$(mktemp -d /tmp/au-verif-confirm-XXXXXX)/wt
git -C /repo worktree add -q --detach "$WT" HEAD || exit 2
trap 'git -C /repo worktree remove --force "$WT" >/dev/null 2>&1; rm -rf "$(dirname "$WT")"; git -C /repo worktree prune' EXIT
bash "$D/demo.sh" "$WT" > "$D/.demo_clean.log" 2>&1; RC_CLEAN=$?
git -C "$WT" apply "$D/patch.diff"; RC_APPLY=$?
bash "$D/demo.sh" "$WT" > "$D/.demo_patched.log" 2>&1; RC_PATCHED=$?
TOUCHES_SUITE=0
if grep -E '^\+\+\+ b/(au/|CMakeLists|cmake/)' "$D/patch.diff" >/dev/null; then TOUCHES_SUITE=1; fi
SUITE_RC=null; PASSED=null; TOTAL=null
if [ "$TOUCHES_SUITE" = 1 ] && [ "$SUITE" != "--no-suite" ]; then
  ( cd "$WT" && cmake -G Ninja -B _build -S . -DCMAKE_BUILD_TYPE=RelWithDebInfo -DFETCHCONTENT_SOURCE_DIR_GOOGLETEST=/usr/src/googletest -DFETCHCONTENT_TRY_FIND_PACKAGE_MODE=ALWAYS > "$D/.suite_build.log" 2>&1 && cmake --build _build -j "${JOBS:-14}" >> "$D/.suite_build.log" 2>&1 && ctest --test-dir _build -j8 --timeout 900 > "$D/.suite_ctest.log" 2>&1 ); SUITE_RC=$?
  PASSED=$(grep -c ' Passed ' "$D/.suite_ctest.log" 2>/dev/null || echo 0)
  TOTAL=$(grep -oE 'out of [0-9]+' "$D/.suite_ctest.log" | grep -oE '[0-9]+' | tail -1)
  [ -z "$TOTAL" ] && TOTAL=null
fi
echo "{\"demo_clean_rc\": $RC_CLEAN, \"apply_rc\": $RC_APPLY, \"demo_patched_rc\": $RC_PATCHED, \"touches_suite\": $TOUCHES_SUITE, \"suite_rc\": $SUITE_RC, \"suite_passed\": $PASSED, \"suite_total\": $TOTAL}"
