#!/usr/bin/python3
"""
quotafs: a tiny FUSE file system (raw /dev/fuse protocol, no libfuse needed, root only) that behaves
like an NFS/cluster mount with a quota: the kernel's write-back cache is enabled, so write(2) succeeds
into the page cache and the "server" refuses the data later, when the pages are written back.  The
application only learns about it from fsync(2) or close(2) -- exactly the NFS / EDQUOT situation.

usage: [QUOTAFS_ERRNO=EDQUOT|ENOSPC|EIO] [QUOTAFS_MAX_WRITE=16384] quotafs.py MOUNTPOINT BACKING_DIR QUOTA_BYTES
  every file's server-side content is dumped to BACKING_DIR/<name> on release (the "truth").
Unmount with:  umount -l MOUNTPOINT   (or python: libc.umount2)
"""
import ctypes, errno, os, stat, struct, sys, time

mnt, backing, quota = sys.argv[1], sys.argv[2], int(sys.argv[3])
ERR = getattr(errno, os.environ.get("QUOTAFS_ERRNO", "EDQUOT"))
MAX_WRITE = int(os.environ.get("QUOTAFS_MAX_WRITE", "16384"))
os.makedirs(backing, exist_ok=True)
libc = ctypes.CDLL(None, use_errno=True)
fd = os.open("/dev/fuse", os.O_RDWR)
opts = f"fd={fd},rootmode=40000,user_id=0,group_id=0,allow_other".encode()
if libc.mount(b"quotafs", mnt.encode(), b"fuse", 0, opts) != 0:
    sys.exit("mount failed: " + os.strerror(ctypes.get_errno()))

(LOOKUP, FORGET, GETATTR, SETATTR, MKNOD, OPEN, READ, WRITE, STATFS, RELEASE, FSYNC, FLUSH, INIT, OPENDIR,
 READDIR, RELEASEDIR, ACCESS, CREATE, INTERRUPT, DESTROY, BATCH_FORGET, UNLINK) = (
    1, 2, 3, 4, 8, 14, 15, 16, 17, 18, 20, 25, 26, 27, 28, 29, 34, 35, 36, 38, 42, 10)
WRITEBACK_CACHE, BIG_WRITES, ATOMIC_O_TRUNC = 1 << 16, 1 << 5, 1 << 3

names = {}            # name -> nodeid
data = {1: None}      # nodeid -> bytearray (None for the root directory)
nextid = [2]
log = open(os.path.join(backing, "_server.log"), "w")

def attr(nid):
    now = int(time.time())
    if nid == 1:
        mode, size, nlink = stat.S_IFDIR | 0o777, 0, 2
    else:
        mode, size, nlink = stat.S_IFREG | 0o666, len(data[nid]), 1
    return struct.pack("<QQQQQQIIIIIIIIII", nid, size, (size + 511) // 512, now, now, now, 0, 0, 0,
                       mode, nlink, 0, 0, 0, 4096, 0)

def entry(nid):
    return struct.pack("<QQQQII", nid, 0, 0, 0, 0, 0) + attr(nid)

def attr_out(nid):
    return struct.pack("<QII", 0, 0, 0) + attr(nid)

def reply(unique, err=0, payload=b""):
    os.write(fd, struct.pack("<IiQ", 16 + len(payload), -err, unique) + payload)

def dump(nid):
    for n, i in names.items():
        if i == nid:
            with open(os.path.join(backing, n), "wb") as f:
                f.write(data[nid])

while True:
    try:
        buf = os.read(fd, 1 << 20)
    except OSError as e:
        if e.errno == errno.ENODEV:
            break
        if e.errno in (errno.EINTR, errno.ENOENT):
            continue
        raise
    ln, op, unique, nid, uid, gid, pid, _ = struct.unpack_from("<IIQQIIII", buf)
    body = buf[40:ln]
    if op == INIT:
        major, minor, ra, flags = struct.unpack_from("<IIII", body)
        want = (WRITEBACK_CACHE | BIG_WRITES | ATOMIC_O_TRUNC) & flags
        reply(unique, 0, struct.pack("<IIIIHHIIHHI7I", 7, min(minor, 31), ra, want, 16, 12, MAX_WRITE, 1, 0, 0, 0,
                                     *([0] * 7)))
        print("INIT kernel minor", minor, "writeback_cache", bool(want & WRITEBACK_CACHE), file=log, flush=True)
    elif op == LOOKUP:
        n = body.rstrip(b"\0").decode()
        if nid == 1 and n in names:
            reply(unique, 0, entry(names[n]))
        else:
            reply(unique, errno.ENOENT)
    elif op == GETATTR:
        reply(unique, 0, attr_out(nid)) if nid in data else reply(unique, errno.ENOENT)
    elif op == SETATTR:
        valid, _, fh, size = struct.unpack_from("<IIQQ", body)
        if valid & (1 << 3) and nid != 1:
            d = data[nid]
            if size > quota:
                reply(unique, errno.EDQUOT); continue
            del d[size:]
            d.extend(b"\0" * (size - len(d)))
        reply(unique, 0, attr_out(nid))
    elif op == CREATE:
        flags, mode, umask, _ = struct.unpack_from("<IIII", body)
        n = body[16:].rstrip(b"\0").decode()
        if n not in names:
            names[n] = nextid[0]; data[nextid[0]] = bytearray(); nextid[0] += 1
        i = names[n]
        if flags & os.O_TRUNC:
            del data[i][:]
        reply(unique, 0, entry(i) + struct.pack("<QII", i, 0, 0))
    elif op == OPEN:
        flags, _ = struct.unpack_from("<II", body)
        if flags & os.O_TRUNC:
            del data[nid][:]
        reply(unique, 0, struct.pack("<QII", nid, 0, 0))
    elif op == OPENDIR:
        reply(unique, 0, struct.pack("<QII", 0, 0, 0))
    elif op == READDIR:
        reply(unique, 0, b"")
    elif op == READ:
        fh, off, size = struct.unpack_from("<QQI", body)
        reply(unique, 0, bytes(data[nid][off:off + size]))
    elif op == WRITE:
        fh, off, size, wflags = struct.unpack_from("<QQII", body)
        payload = body[40:40 + size]
        if off + size > quota:
            print(f"WRITE off={off} size={size} REFUSED (quota {quota})", file=log, flush=True)
            reply(unique, ERR)
        else:
            d = data[nid]
            if len(d) < off:
                d.extend(b"\0" * (off - len(d)))
            d[off:off + size] = payload
            reply(unique, 0, struct.pack("<II", size, 0))
    elif op in (FLUSH, FSYNC, RELEASEDIR):
        reply(unique, 0)
    elif op == RELEASE:
        dump(nid)
        reply(unique, 0)
    elif op == UNLINK:
        n = body.rstrip(b"\0").decode()
        if n in names:
            data.pop(names.pop(n)); reply(unique, 0)
        else:
            reply(unique, errno.ENOENT)
    elif op == STATFS:
        reply(unique, 0, struct.pack("<QQQQQIIII6I", 1 << 20, 1 << 19, 1 << 19, 1000, 1000, 4096, 255, 4096, 0,
                                     *([0] * 6)))
    elif op in (FORGET, BATCH_FORGET, INTERRUPT):
        pass
    elif op == DESTROY:
        reply(unique, 0); break
    else:
        reply(unique, errno.ENOSYS)
for i in list(data):
    if i != 1:
        dump(i)
