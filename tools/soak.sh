#!/bin/bash
# usage: tools/soak.sh <first seed> <last seed> [tier]   -- runs the C20 check on /repo for each seed
# (evidence/replays go to a scratch dir), prints one line per seed; any rc != 0 on the unchanged tree
# would be a false alarm (1) or a simulator self-test failure (2).
set -u
TIER=${3:-quick}
HERE=$(cd "$(dirname "$0")/.." && pwd)
OUT=$(mktemp -d /tmp/au-verif-soak-XXXXXX)
trap 'rm -rf "$OUT"' EXIT
for s in $(seq "$1" "$2"); do
  VERIF_SEED=$s VERIF_OUT=$OUT python3 "$HERE/sim/run.py" c20 --tier "$TIER" > "$OUT/log.$s" 2>&1; rc=$?
  echo "seed=$s rc=$rc $(tail -1 "$OUT/log.$s")"
  if [ $rc -ne 0 ]; then grep -E "VIOLATION|class=|FAILED|divergence|disagrees|note:" "$OUT/log.$s" | head -20; cp -r "$OUT/replays" "/tmp/t1/soak-replays-$s" 2>/dev/null; fi
done
