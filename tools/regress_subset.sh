#!/bin/bash
# usage: tools/regress_subset.sh <outdir> <name-prefix>...   -- like regress.sh, for the seeded changes /
# mutants whose directory or file name starts with one of the given prefixes (e.g. S07 S25 M20).
set -u
HERE=$(cd "$(dirname "$0")/.." && pwd)
OUT=${1:?outdir}; shift
mkdir -p "$OUT"
D=$(mktemp -d /tmp/au-verif-regress-XXXXXX)
trap 'rm -rf "$D"' EXIT
python3 - "$HERE" "$D" "$@" <<'PY'
import json, os, shutil, sys
here, d, pre = sys.argv[1], sys.argv[2], tuple(sys.argv[3:])
exp = {}
for name in sorted(os.listdir(os.path.join(here, "seeded"))):
    p = os.path.join(here, "seeded", name, "patch.diff")
    if os.path.exists(p) and name.startswith(pre):
        shutil.copy(p, os.path.join(d, name + ".diff")); exp[name] = {"expect": ["any"]}
for f in sorted(os.listdir(os.path.join(here, "mutants"))):
    if f.endswith(".diff") and f.startswith(pre):
        shutil.copy(os.path.join(here, "mutants", f), os.path.join(d, f)); exp[f[:-5]] = {"expect": ["any"]}
json.dump(exp, open(os.path.join(d, "expect.json"), "w"))
PY
VERIF_MIN_GROUPS=1 python3 "$HERE/sim/sensitivity.py" --dir "$D" --out "$OUT/subset.json"
