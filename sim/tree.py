"""Inventory of the repository under test, read from the working tree at check time.

Nothing in here is hand-listed: units, constants, public headers and the identifiers the probe
programs use are all recovered from /repo as it is *now*, so that added / removed / edited headers
are followed automatically.
"""
import hashlib
import os
import re

REPO = os.environ.get("VERIF_REPO", "/repo")
TOOL_REL = "tools/bin/make-single-file"
CODE_REL = "au/code"
AU_REL = "au/code/au"

# Headers that need googletest or are test scaffolding: not part of the shipped package.
NON_PUBLIC = {"au/testing.hh", "au/chrono_policy_validation.hh", "au/fwd_test_lib.hh"}


def tool_path():
    return os.path.join(REPO, TOOL_REL)


def _read(path):
    with open(path, "rb") as f:
        return f.read()


class Tree:
    def __init__(self):
        self.repo = REPO
        au = os.path.join(REPO, AU_REL)
        self.units = sorted(
            f[:-3]
            for f in os.listdir(os.path.join(au, "units"))
            if f.endswith(".hh") and not f.endswith("_fwd.hh")
        )
        self.constants = sorted(
            f[:-3]
            for f in os.listdir(os.path.join(au, "constants"))
            if f.endswith(".hh") and not f.endswith("_fwd.hh")
        )
        # every non-test header, as an include path relative to au/code
        hdrs = []
        for root, dirs, files in os.walk(au):
            dirs[:] = sorted(d for d in dirs if d != "test")
            for f in sorted(files):
                if f.endswith(".hh"):
                    rel = os.path.relpath(os.path.join(root, f), os.path.join(REPO, CODE_REL))
                    hdrs.append(rel)
        self.all_headers = sorted(hdrs)
        self.public_headers = [h for h in self.all_headers if h not in NON_PUBLIC]
        self.unit_types = {}  # stem -> [type names declared by its _fwd.hh]
        for u in self.units:
            fwd = os.path.join(au, "units", u + "_fwd.hh")
            names = []
            if os.path.exists(fwd):
                names = re.findall(r"^\s*struct\s+(\w+)\s*;", _read(fwd).decode("utf-8", "replace"), re.M)
            if not names:
                # fall back on the definition itself
                txt = _read(os.path.join(au, "units", u + ".hh")).decode("utf-8", "replace")
                names = re.findall(r"^struct\s+(\w+)\s*:", txt, re.M)[:1]
            self.unit_types[u] = names
        self.constant_names = {}  # stem -> identifier of the constant
        for c in self.constants:
            txt = _read(os.path.join(au, "constants", c + ".hh")).decode("utf-8", "replace")
            m = re.search(r"constexpr\s+auto\s+(\w+)\s*=\s*make_constant\s*\(", txt)
            self.constant_names[c] = m.group(1) if m else None
        # Macro names the library itself looks at or touches (#ifndef PI, #undef X, push_macro("X")):
        # a user's program may have its own macro of that name, and both packagings must leave it
        # in the same state.  Compiler-reserved names are not a user's to define.
        names = set()
        for h in self.all_headers:
            txt = _read(os.path.join(REPO, CODE_REL, h)).decode("utf-8", "replace")
            for m in re.finditer(r"^\s*#\s*(?:undef|ifndef|ifdef)\s+(\w+)", txt, re.M):
                names.add(m.group(1))
            for m in re.finditer(r"(?:push_macro|pop_macro)\s*\(\s*\"(\w+)\"\s*\)", txt):
                names.add(m.group(1))
            for m in re.finditer(r"^\s*#\s*(?:if|elif)\b(.*)$", txt, re.M):
                names.update(re.findall(r"defined\s*\(?\s*(\w+)", m.group(1)))
        self.macro_names = sorted(n for n in names if not n.startswith("_"))
        # unit headers that include another unit header directly: (includer stem, included stem)
        self.unit_includes = []
        for u in self.units:
            txt = _read(os.path.join(au, "units", u + ".hh")).decode("utf-8", "replace")
            for m in re.finditer(r'^\s*#\s*include\s+"au/units/(\w+)\.hh"', txt, re.M):
                if m.group(1) in self.units and m.group(1) != u:
                    self.unit_includes.append((u, m.group(1)))
        self._fp = None

    def non_ascii_headers(self):
        bad = []
        for h in self.all_headers:
            try:
                _read(os.path.join(REPO, CODE_REL, h)).decode("ascii")
            except UnicodeDecodeError:
                bad.append(h)
        return bad

    def fingerprint(self):
        """sha256 over the tool and every header: identifies the tree a replay was made on."""
        if self._fp is None:
            h = hashlib.sha256()
            h.update(_read(tool_path()))
            for rel in self.all_headers:
                h.update(rel.encode())
                h.update(b"\0")
                h.update(_read(os.path.join(REPO, CODE_REL, rel)))
            self._fp = h.hexdigest()
        return self._fp
