"""Plan minimisation: greedy simplification + ddmin on lists, keeping the same violation class and
signature.  Candidates of one round are evaluated concurrently; the first (in candidate order) that
still fails is kept, so the result does not depend on thread timing."""
import copy
from concurrent.futures import ThreadPoolExecutor

from . import check as _check


class Minimiser:
    def __init__(self, ctx, vclass, sig, budget=120, jobs=8, log=None, hint=None):
        self.hint = hint or {}
        self.ctx = ctx
        self.vclass = vclass
        self.sig = sig
        self.budget = budget
        self.jobs = jobs
        self.evals = 0
        self.steps = []
        self.log = log or (lambda *a: None)
        self.last_eval = None

    def fails(self, case):
        ev = _check.evaluate_case(self.ctx, case)
        for v in ev["violations"]:
            if v["class"] == self.vclass and v["sig"] == self.sig:
                return ev
        return None

    def first_failing(self, cands):
        """cands: list of (label, case).  Returns (label, case, ev) of the first that still fails."""
        cands = cands[: max(0, self.budget - self.evals)]
        if not cands:
            return None
        self.evals += len(cands)
        with ThreadPoolExecutor(self.jobs) as ex:
            res = list(ex.map(lambda lc: self.fails(lc[1]), cands))
        for (label, case), ev in zip(cands, res):
            if ev is not None:
                return label, case, ev
        return None

    def ddmin_list(self, case, get, put, label):
        """Classic ddmin over a list-valued field."""
        items = list(get(case))
        n = 2
        while len(items) >= 1 and self.evals < self.budget:
            if len(items) == 1:
                c = put(copy.deepcopy(case), [])
                r = self.first_failing([("%s: drop last element" % label, c)])
                if r:
                    items = []
                    case = r[1]
                    self.steps.append(r[0])
                break
            chunk = max(1, len(items) // n)
            subsets = [items[i:i + chunk] for i in range(0, len(items), chunk)]
            cands = []
            for s in subsets:  # try each subset alone
                cands.append(("%s: keep %d of %d" % (label, len(s), len(items)), put(copy.deepcopy(case), list(s))))
            for i in range(len(subsets)):  # try each complement
                comp = [x for j, s in enumerate(subsets) if j != i for x in s]
                if comp and len(subsets) > 2:
                    cands.append(("%s: keep %d of %d" % (label, len(comp), len(items)), put(copy.deepcopy(case), comp)))
            r = self.first_failing(cands)
            if r:
                case = r[1]
                items = list(get(case))
                self.steps.append(r[0])
                n = max(2, min(n - 1, len(items)))
            else:
                if n >= len(items):
                    break
                n = min(len(items), n * 2)
        return case

    def try_one(self, case, label, mutate):
        c = copy.deepcopy(case)
        if mutate(c) is False or c == case:
            return case
        r = self.first_failing([(label, c)])
        if r:
            self.steps.append(label)
            return r[1]
        return case

    def run_session(self, case):
        case = copy.deepcopy(case)
        # 1. fewer invocations
        case = self.ddmin_list(case, lambda c: c["session"], lambda c, v: (c.__setitem__("session", v), c)[1], "invocations")
        # 2. the same, simple machine for every invocation
        def all_env(key, val):
            def m(c):
                for inv in c["session"]:
                    if val is None:
                        inv["env"].pop(key, None)
                    else:
                        inv["env"][key] = copy.deepcopy(val)
            return m
        case = self.try_one(case, "no touched headers", all_env("touched", {}))
        case = self.try_one(case, "directories sorted", lambda c: (all_env("listdir", {})(c), all_env("listdir_default", "sorted")(c)))
        case = self.try_one(case, "stdout -> block buffered 4096", lambda c: (all_env("stdout_mode", "block")(c), all_env("stdout_bufsize", 4096)(c)))
        case = self.try_one(case, "git -> ok", all_env("git", "ok:x"))
        case = self.try_one(case, "hashseed -> 0", lambda c: (c.__setitem__("hashseed", 0), [inv.__setitem__("hashseed", 0) for inv in c["session"]]))
        # 3. smaller selections, invocation by invocation
        for k in range(len(case["session"])):
            if k >= len(case["session"]):
                break
            for key in ("constants", "units"):
                cur = case["session"][k]["selection"].get(key)
                if cur == "ALL":
                    case = self.try_one(case, "invocation %d: %s ALL -> none" % (k, key), lambda c, k=k, key=key: c["session"][k]["selection"].__setitem__(key, []))
                    cur = case["session"][k]["selection"].get(key)
                    if cur == "ALL":
                        full = self.ctx.tree.units if key == "units" else self.ctx.tree.constants
                        case = self.try_one(case, "invocation %d: %s ALL -> explicit" % (k, key), lambda c, k=k, key=key, full=full: c["session"][k]["selection"].__setitem__(key, list(full)))
                if isinstance(case["session"][k]["selection"].get(key), list) and case["session"][k]["selection"][key]:
                    case = self.ddmin_list(
                        case,
                        lambda c, k=k, key=key: c["session"][k]["selection"][key],
                        lambda c, v, k=k, key=key: (c["session"][k]["selection"].__setitem__(key, v), c)[1],
                        "invocation %d %s" % (k, key),
                    )
            case = self.try_one(case, "invocation %d: with io, version x" % k, lambda c, k=k: (c["session"][k]["selection"].__setitem__("io", True), c["session"][k]["selection"].__setitem__("version_id", "x")))
            case = self.try_one(case, "invocation %d: toolchain g++/c++14" % k, lambda c, k=k: c["session"][k].__setitem__("toolchain", {"a": ["g++", "c++14"]}))
        final = self.fails(case)
        self.evals += 1
        return case, final

    def run_concurrent(self, case):
        case = copy.deepcopy(case)
        for k in range(2):
            for key in ("constants", "units"):
                cur = case["concurrent"][k]["selection"].get(key)
                if cur == "ALL":
                    full = self.ctx.tree.units if key == "units" else self.ctx.tree.constants
                    case = self.try_one(case, "%s: %s ALL -> explicit" % ("AB"[k], key), lambda c, k=k, key=key, full=full: c["concurrent"][k]["selection"].__setitem__(key, list(full)))
                if isinstance(case["concurrent"][k]["selection"].get(key), list) and case["concurrent"][k]["selection"][key]:
                    case = self.ddmin_list(
                        case,
                        lambda c, k=k, key=key: c["concurrent"][k]["selection"][key],
                        lambda c, v, k=k, key=key: (c["concurrent"][k]["selection"].__setitem__(key, v), c)[1],
                        "%s %s" % ("AB"[k], key),
                    )
            case = self.try_one(case, "%s: plain environment" % "AB"[k], lambda c, k=k: c["concurrent"][k]["env"].update({"listdir": {}, "listdir_default": "sorted", "stdout_mode": "block", "stdout_bufsize": 4096}))
            case = self.try_one(case, "%s: toolchain g++/c++14" % "AB"[k], lambda c, k=k: c["concurrent"][k].__setitem__("toolchain", {"a": ["g++", "c++14"]}))
        final = self.fails(case)
        self.evals += 1
        return case, final

    def run(self, case):
        if "concurrent" in case:
            return self.run_concurrent(case)
        if "header_alone" in case or "edge_program" in case or "fwd_unit" in case:  # nothing to shrink
            self.evals += 1
            return copy.deepcopy(case), self.fails(case)
        if "session" in case:
            return self.run_session(case)
        tree = self.ctx.tree
        case = copy.deepcopy(case)
        # 1. faults
        if case.get("faults"):
            case = self.ddmin_list(case, lambda c: c["faults"], lambda c, v: (c.__setitem__("faults", v), c)[1], "faults")
        if "base_git" in case:
            def benign_git(c):
                c["env"]["git"] = c.pop("base_git")
            case = self.try_one(case, "git outcome -> benign", benign_git)
        # 2. environment
        def env_set(key, val):
            def m(c):
                c["env"][key] = val
            return m
        for d in list(case["env"].get("listdir", {})):
            def m(c, d=d):
                c["env"]["listdir"].pop(d, None)
            case = self.try_one(case, "listdir(%s) -> sorted" % d, m)
        if case["env"].get("listdir_default", "sorted") != "sorted":
            case = self.try_one(case, "other directories -> sorted", env_set("listdir_default", "sorted"))
            if case["env"].get("listdir_default", "sorted") != "sorted":
                case = self.try_one(case, "other directories -> reversed", env_set("listdir_default", "reversed"))
        case = self.try_one(case, "no stray directory entries", env_set("extra_entries", {}))
        case = self.try_one(case, "clock -> fixed instant", env_set("clock", ["2026-01-01T00:00:00"]))
        case = self.try_one(case, "stdout -> block buffered", env_set("stdout_mode", "block"))
        case = self.try_one(case, "stdout buffer -> 4096", env_set("stdout_bufsize", 4096))
        case = self.try_one(case, "LF checkout", env_set("crlf", False))
        if "invoked_via_symlink" not in (case.get("base_env") or {}):
            case = self.try_one(case, "tool started by its plain path", env_set("invoked_via_symlink", False))
        if "environ" not in (case.get("base_env") or {}):
            case = self.try_one(case, "no extra environment variables", env_set("environ", {}))
        if "stderr_closed" not in (case.get("base_env") or {}) and case["env"].get("stderr_closed"):
            case = self.try_one(case, "stderr open", env_set("stderr_closed", False))
        if "encoding" not in (case.get("base_env") or {}) and (case["env"].get("encoding") or "utf-8") != "utf-8":
            case = self.try_one(case, "UTF-8 locale", env_set("encoding", "utf-8"))
        if "symlink_farm" not in (case.get("base_env") or {}):
            case = self.try_one(case, "plain files, no symlink farm", env_set("symlink_farm", False))
        if "base_git" not in case:
            case = self.try_one(case, "git -> ok", env_set("git", "ok:x"))
        if "git_repo" not in (case.get("base_env") or {}):
            case = self.try_one(case, "tree tracked by git", env_set("git_repo", "tracked"))
        if "base_hashseed" in case:
            # the hash seed differs from the twin's: first see whether that difference matters
            def same_seed(c):
                c["hashseed"] = c.pop("base_hashseed")
            case = self.try_one(case, "same hash seed as the twin", same_seed)
        if "base_hashseed" not in case:
            case = self.try_one(case, "hashseed -> 0", lambda c: c.__setitem__("hashseed", 0))
        # 3. selection
        sel = case["selection"]
        if sel.get("main_files"):
            case = self.ddmin_list(case, lambda c: c["selection"]["main_files"], lambda c, v: (c["selection"].__setitem__("main_files", v), c)[1], "main_files")
        for key, full in (("units", tree.units), ("constants", tree.constants)):
            if case["selection"].get(key) == "ALL":
                case = self.try_one(case, "%s ALL -> none" % key, lambda c, key=key: c["selection"].__setitem__(key, []))
                if case["selection"].get(key) == "ALL":
                    case = self.try_one(case, "%s ALL -> explicit list" % key, lambda c, key=key, full=full: c["selection"].__setitem__(key, list(full)))
            if isinstance(case["selection"].get(key), list) and case["selection"][key]:
                case = self.ddmin_list(case, lambda c, key=key: c["selection"][key], lambda c, v, key=key: (c["selection"].__setitem__(key, v), c)[1], key)
        if case["selection"].get("user_main"):
            case = self.try_one(case, "no user main file", lambda c: c["selection"].pop("user_main"))
            if case["selection"].get("user_main", {}).get("dup_include"):
                case = self.try_one(case, "user main file without repeated includes", lambda c: c["selection"]["user_main"].__setitem__("dup_include", False))
            if case["selection"].get("user_main", {}).get("non_ascii"):
                case = self.try_one(case, "user main file in plain ASCII", lambda c: c["selection"]["user_main"].__setitem__("non_ascii", False))
            if case["selection"].get("user_main"):
                case = self.try_one(case, "user main file with quoted includes", lambda c: c["selection"]["user_main"].__setitem__("style", "quoted"))
        case = self.try_one(case, "with io (no --noio)", lambda c: c["selection"].__setitem__("io", True))
        case = self.try_one(case, "explicit --version-id x", lambda c: c["selection"].__setitem__("version_id", "x"))
        case = self.try_one(case, "default option order", lambda c: c["selection"].__setitem__("opt_order", ["units", "constants", "noio", "version"]))
        # 4. probe program
        if case.get("probe", {}).get("api"):
            case = self.ddmin_list(case, lambda c: c["probe"]["api"], lambda c, v: (c["probe"].__setitem__("api", v), c)[1], "api fragments")
        case = self.try_one(case, "canonical include order", lambda c: c["probe"].__setitem__("include_order", None))
        if case.get("probe", {}).get("user_macros"):
            case = self.try_one(case, "no user macros", lambda c: c["probe"].__setitem__("user_macros", False))
        # 5. toolchain
        if self.vclass == "TOOLCHAIN_DEPENDENT" and "b" not in case["toolchain"] and self.hint.get("toolchain_b"):
            # found by a matrix plan or by asking the other configurations after a double reject:
            # name the two configurations that disagree explicitly
            def explicit_pair(c):
                parts = self.hint["toolchain_b"].split("/")
                c["toolchain"] = {"a": c["toolchain"]["a"], "b": parts, "b_variant": self.hint.get("b_variant", "multi")}
            case = self.try_one(case, "explicit toolchain pair", explicit_pair)
        if self.vclass != "TOOLCHAIN_DEPENDENT" and "b" in case["toolchain"]:
            def drop_b(c):
                c["toolchain"].pop("b", None)
                c["toolchain"].pop("b_variant", None)
            case = self.try_one(case, "single toolchain", drop_b)
        case = self.try_one(case, "toolchain a -> g++/c++14", lambda c: c["toolchain"].__setitem__("a", ["g++", "c++14"]))
        if self.vclass == "TOOLCHAIN_DEPENDENT" and "b" in case["toolchain"]:
            for std in ("c++14",):
                case = self.try_one(case, "toolchain a std -> %s" % std, lambda c, std=std: c["toolchain"].__setitem__("a", [c["toolchain"]["a"][0], std]))
                case = self.try_one(case, "toolchain b std -> %s" % std, lambda c, std=std: c["toolchain"].__setitem__("b", [c["toolchain"]["b"][0], std]))
        # 6. fault parameters
        for i, f in enumerate(list(case.get("faults") or [])):
            if f["op"] == "write" and f.get("where") != "first":
                def first(c, i=i):
                    c["faults"][i]["where"] = "first"
                case = self.try_one(case, "write fault %d -> at byte 0" % i, first)
            if f["op"] in ("open", "read") and f.get("nth") != 0:
                def nth0(c, i=i):
                    c["faults"][i]["nth"] = 0
                case = self.try_one(case, "%s fault %d -> first file opened" % (f["op"], i), nth0)
        # 7. a remaining non-sorted directory order: make it explicit ("these names first, in this
        # order, the rest sorted") and ddmin that list - dropping a name moves it back to its
        # sorted position, so what remains is the handful of entries whose position matters.
        import os
        import random

        from . import tree as _tree

        def explicit_order(d, spec):
            try:
                names = sorted(os.listdir(os.path.join(_tree.REPO, d)))
            except OSError:
                return None
            names = sorted(set(names) | set(case["env"].get("extra_entries", {}).get(d, [])))
            if spec == "reversed":
                return names[::-1]
            if isinstance(spec, dict) and "shuffle" in spec:
                order = list(names)
                random.Random("%s|%s" % (spec["shuffle"], d)).shuffle(order)
                return order
            if isinstance(spec, dict) and "explicit" in spec:
                return list(spec["explicit"])
            return None

        for d, spec in list(case["env"].get("listdir", {}).items()):
            if spec == "sorted":
                continue
            order = explicit_order(d, spec)
            if not order:
                continue
            cand = copy.deepcopy(case)
            cand["env"]["listdir"][d] = {"explicit": order}
            r = self.first_failing([("listdir(%s) -> explicit order" % d, cand)])
            if not r:
                continue
            case = r[1]
            case = self.ddmin_list(
                case,
                lambda c, d=d: c["env"]["listdir"][d]["explicit"],
                lambda c, v, d=d: (c["env"]["listdir"][d].__setitem__("explicit", v), c)[1],
                "listdir(%s) entries out of sorted position" % d,
            )
        final = self.fails(case)
        self.evals += 1
        return case, final
