"""Plan generation: every decision of a simulated run is drawn here, up front, from one PRNG that
is a pure function of (VERIF_SEED, run index).  The run itself only consumes the plan."""
import copy
import hashlib
import random

from . import apisurface
from . import oracle as _oracle

HASHSEEDS = (0, 1, 2, 3, 11, 42, 1234, 99999)
UNIT_SIZES = (0, 1, 1, 2, 2, 3, 3, 5, 8, 20)
CLOCKS = (
    ["0001-01-01T00:00:00"],
    ["1999-12-31T23:59:59"],
    ["2026-09-26T12:00:00"],
    ["2031-12-31T23:59:59", "2032-01-01T00:00:00"],  # New Year between two reads
    ["2038-01-19T03:14:08"],
    ["9999-12-31T23:59:59"],
)
GIT_OK = ("ok:0.4.1", "ok:0.4.1-12-gdeadbee-dirty", "ok:a32a887", "ok:v1.0.0-rc.1+build/7", "empty")
GIT_HANDLED = ("exit128", "exit1", "signal")
GIT_UNHANDLED = ("enoent", "eacces", "badbytes")
STRAY = ("README", "meters.hh~", ".meters.hh.swp", "BUILD.bazel", "notes.txt", "backup.d", "#feet.hh#", "units.hh.orig", "old_units.lnk", "seconds.hh.rej", ".DS_Store", "CMakeLists.txt.bak")
ENCODINGS = ("utf-8", "cp1252", "latin-1", "ascii")
NON_ASCII_VERSION_IDS = ("0.4.1-M\u00fcller", "v2 \u00b5-build \u2014 \u00c5", "\u7248\u672c-3")
# what `--version-id "$(cat VERSION)"` or "$(git describe; date)" hands over when the command
# prints more than one line: an identifier with a line break in it
MULTILINE_VERSION_IDS = ("v1.2\nbuilt by jenkins", "0.4.1\rnightly 2026-09-27", "v3\n#define PI 3")
VERSION_IDS = ("0.4.1", "0.4.1-12-gdeadbee-dirty", "sim build 7", "x")
OPEN_ERRNOS = ("ENOENT", "ENOENT", "EACCES", "EMFILE", "EIO")
WRITE_ERRNOS = ("EPIPE", "ENOSPC", "EIO", "EAGAIN")
UNITS_DIR = "au/code/au/units"
CONSTANTS_DIR = "au/code/au/constants"


def rng_for(seed, *parts):
    h = hashlib.sha256(("%s|" % seed + "|".join(str(p) for p in parts)).encode()).digest()
    return random.Random(int.from_bytes(h[:16], "big"))


def all_toolchains():
    return [(c, s) for c in sorted(_oracle.COMPILERS) for s in _oracle.STDS]


ENVIRON_CHOICES = {
    "SOURCE_DATE_EPOCH": ("0", "1", "1700000000", "4102444800", "253402300799"),
    "TMPDIR": ("/tmp", "/nonexistent-tmp-dir", "/dev/shm"),
    "HOME": ("/nonexistent-home", "/", "/root"),
    "LANG": ("C", "POSIX", "en_US.UTF-8", "tr_TR.UTF-8", "de_DE.ISO-8859-1"),
    "LC_ALL": ("C", "tr_TR.UTF-8"),
    "COLUMNS": ("20", "400"),
    "TZ": ("UTC", "Pacific/Kiritimati", "America/Anchorage"),
    "PYTHONPATH": ("/nonexistent-pythonpath",),
    "NO_COLOR": ("1",),
    "TERM": ("dumb", "xterm-256color"),
    "CI": ("true",),
}


def _environ(rng):
    keys = rng.sample(sorted(ENVIRON_CHOICES), rng.choice((1, 1, 2, 3)))
    return {k: rng.choice(ENVIRON_CHOICES[k]) for k in keys}


def _listdir_spec(rng):
    r = rng.random()
    if r < 0.10:
        return "sorted"
    if r < 0.20:
        return "reversed"
    return {"shuffle": rng.randrange(1 << 30)}


def make_plan(tree, seed, i, tier="quick"):
    rng = rng_for(seed, "plan", i)
    sel = {}
    # units
    r = rng.random()
    if r < (0.10 if tier == "quick" else 0.12):
        sel["units"] = "ALL"
    else:
        k = min(rng.choice(UNIT_SIZES), len(tree.units))
        units = rng.sample(tree.units, k)
        if units and rng.random() < 0.05:
            units.append(rng.choice(units))  # a repeated name is valid input
        sel["units"] = units
    # constants
    r = rng.random()
    if r < 0.12:
        sel["constants"] = "ALL"
    else:
        k = min(rng.choice((0, 0, 0, 1, 1, 2, 3)), len(tree.constants))
        sel["constants"] = rng.sample(tree.constants, k)
    sel["io"] = rng.random() < 0.5
    sel["version_id"] = rng.choice(VERSION_IDS) if rng.random() < 0.5 else None
    if rng.random() < 0.25:
        sel["main_files"] = rng.sample(tree.public_headers, rng.choice((1, 1, 2, 3)))
    else:
        sel["main_files"] = []
    order = ["units", "constants", "noio", "version"]
    rng.shuffle(order)
    sel["opt_order"] = order
    if rng.random() < 0.12:
        # a header of the user's own project as an extra main file, including Au either way
        sel["user_main"] = {"style": rng.choice(("quoted", "angled", "mixed")), "unit": rng.choice(tree.units)}

    env = {
        "listdir": {UNITS_DIR: _listdir_spec(rng), CONSTANTS_DIR: _listdir_spec(rng)},
        "listdir_default": _listdir_spec(rng),
        "extra_entries": {},
        "clock": list(rng.choice(CLOCKS)),
        "git": rng.choice(GIT_OK),
        "stdout_mode": rng.choices(("block", "unbuffered", "line"), (0.6, 0.25, 0.15))[0],
        # st_blksize of whatever fd 1 is: CPython sizes its BufferedWriter from it (4096 for pipes
        # and ext4 files; larger on some network / copy-on-write filesystems)
        "stdout_bufsize": rng.choice((4096, 4096, 8192, 65536, 1048576)),
        "crlf": rng.random() < 0.12,
        # how the source tree relates to git: a normal clone; an exported tarball (no repository);
        # a copy sitting untracked inside some other repository (third_party/, _deps/)
        "git_repo": rng.choices(("tracked", "norepo", "untracked"), (0.7, 0.15, 0.15))[0],
        # the tree as a symlink farm (cp -rs, stow, Bazel's sandbox): every file is a link to the real one
        "symlink_farm": rng.random() < 0.15,
        # environment variables build machines legitimately differ in
        "environ": _environ(rng) if rng.random() < 0.3 else {},
        # the tool started through a path that contains a symbolic link
        "invoked_via_symlink": rng.random() < 0.15,
    }
    if rng.random() < 0.25:
        env["extra_entries"][UNITS_DIR] = rng.sample(STRAY, rng.choice((1, 2, 3)))
    if rng.random() < 0.15:
        env["extra_entries"][CONSTANTS_DIR] = rng.sample(STRAY, rng.choice((1, 2)))

    tcs = all_toolchains()
    a = rng.choice(tcs)
    tc = {"a": list(a)}
    if rng.random() < 0.5:
        b = rng.choice([t for t in tcs if t != a])
        tc["b"] = list(b)
        if rng.random() < 0.3:
            tc["b"].append("-O2")  # the second configuration may also differ in optimisation level
        tc["b_variant"] = rng.choice(("single", "multi"))
    probe = {
        "include_order": rng.randrange(1 << 30) if rng.random() < 0.8 else None,
        "api": apisurface.sample(rng),
        "user_macros": rng.random() < 0.3,
    }
    hashseed = rng.choice(HASHSEEDS)
    # knobs added later draw from a stream of their own, so that the plans of a seed stay what they
    # were in every other respect
    late = rng_for(seed, i, "late-knobs")
    # the locale's text encoding (open() without encoding=, sys.stdout, argv)
    env["encoding"] = late.choices(ENCODINGS, (0.82, 0.08, 0.06, 0.04))[0]
    if sel.get("user_main"):
        # (a plain C locale cannot read such a file at all: a loud failure, nothing to compare)
        sel["user_main"]["non_ascii"] = late.random() < 0.5 and env["encoding"] != "ascii"
    if sel.get("version_id") is not None and late.random() < 0.15:
        sel["version_id"] = late.choice(NON_ASCII_VERSION_IDS)
    elif sel.get("version_id") is not None and late.random() < 0.08:
        sel["version_id"] = late.choice(MULTILINE_VERSION_IDS)
    if sel.get("user_main") and late.random() < 0.3:
        sel["user_main"]["dup_include"] = True
    # file descriptor 2 closed (`2>&-`, daemonised build agents): CPython then sets sys.stderr to None
    env["stderr_closed"] = late.random() < 0.1
    return {
        "seed": seed,
        "run": i,
        "hashseed": hashseed,
        "selection": sel,
        "env": env,
        "faults": [],
        "toolchain": tc,
        "probe": probe,
    }


def _write_fault(rng, mode, handled_only=False):
    where = rng.choices(("permille", "first", "last_byte", "last_buffer", "boundary", "from_end"), (0.3, 0.1, 0.05, 0.1, 0.15, 0.3))[0]
    f = {"op": "write", "where": where, "permille": rng.randrange(1000)}
    if where == "from_end":
        # the end of the output is where the text layer's last chunk, the buffer and the exit-time
        # flushes interact; distances up to three text chunks
        f["distance"] = rng.choice((1, 2, rng.randrange(1, 4096), rng.randrange(4096, 8192), rng.randrange(1, 3 * 8192)))
    if handled_only:
        f["kind"] = "short"
    else:
        f["kind"] = rng.choice(WRITE_ERRNOS)
        f["persistent"] = rng.random() < 0.6
        if rng.random() < 0.12:
            # a device with a write-back cache: write(2) keeps succeeding, the error is reported
            # by close(2) / fsync(2) - to whoever asks
            f["kind"] = "deferred"
            f["errno"] = rng.choice(("EDQUOT", "ENOSPC", "EIO"))
    return f


def faulty_variants(plan, seed, m):
    """m faulty re-executions of `plan` (same selection, same environment), each described as a
    (faults, env-overrides) pair.  About half carry only faults the tool is expected to absorb."""
    rng = rng_for(seed, "faults", plan["run"])
    mode = plan["env"].get("stdout_mode", "block")
    uses_listdir = plan["selection"].get("units") == "ALL" or plan["selection"].get("constants") == "ALL"
    out = []
    for j in range(m):
        faults = []
        envo = {}
        handled_only = rng.random() < 0.5
        if handled_only:
            kinds = ["short", "git"]
            k = rng.choice(kinds)
            if k == "short":
                for _ in range(rng.choice((1, 1, 2, 3))):
                    faults.append(_write_fault(rng, mode, handled_only=True))
                if rng.random() < 0.3:
                    envo["git"] = rng.choice(GIT_HANDLED)
            else:
                envo["git"] = rng.choice(GIT_HANDLED)
        else:
            n = rng.choice((1, 1, 1, 2, 3))
            for _ in range(n):
                kinds = ["open", "read", "write", "write", "git", "interrupt", "memerror", "kill"]
                if uses_listdir:
                    kinds.append("listdir")
                k = rng.choice(kinds)
                if k == "open":
                    nth = rng.choice((0, -1, rng.randrange(1000)))
                    f = {"op": "open", "nth": nth, "errno": rng.choice(OPEN_ERRNOS)}
                    if f["errno"] == "ENOENT":
                        # missing from the start, or vanishing after it has been looked at once
                        f["from_access"] = rng.choice((0, 0, 1))
                    faults.append(f)
                elif k == "read":
                    nth = rng.choice((0, -1, rng.randrange(1000)))
                    faults.append({"op": "read", "nth": nth, "permille": rng.choice((0, 500, 999, rng.randrange(1000))), "errno": "EIO"})
                elif k == "write":
                    faults.append(_write_fault(rng, mode))
                elif k in ("interrupt", "memerror", "kill"):
                    faults.append({"op": k, "permille": rng.choice((1, 500, 999, rng.randrange(1000), rng.randrange(1000)))})
                elif k == "listdir":
                    faults.append({"op": "listdir", "nth": rng.randrange(4), "errno": rng.choice(("EACCES", "ENOENT", "EIO", "ENOTDIR"))})
                else:
                    envo["git"] = rng.choice(GIT_UNHANDLED)
            if rng.random() < 0.2:
                faults.append(_write_fault(rng, mode, handled_only=True))
        out.append({"variant": j, "faults": faults, "env": envo})
    return out


def apply_variant(plan, variant):
    p = copy.deepcopy(plan)
    p["faults"] = copy.deepcopy(variant["faults"])
    p["env"].update(variant.get("env") or {})
    p["variant"] = variant.get("variant")
    return p


def spine(tree, seed):
    """Deterministic spine of the thorough tier: each unit alone, each constant alone, each public
    header alone as main file, each x {io, noio}; toolchains rotate."""
    tcs = all_toolchains()
    plans = []
    n = 0

    def base(sel):
        nonlocal n
        rng = rng_for(seed, "spine", n)
        a = tcs[n % len(tcs)]
        b = tcs[(n * 5 + 3) % len(tcs)]
        p = {
            "seed": seed,
            "run": "spine-%d" % n,
            "hashseed": HASHSEEDS[n % len(HASHSEEDS)],
            "selection": dict(sel, version_id="spine", opt_order=["units", "constants", "noio", "version"]),
            "env": {"listdir": {}, "listdir_default": _listdir_spec(rng), "extra_entries": {}, "clock": ["2026-09-26T12:00:00"], "git": "ok:spine", "stdout_mode": "block", "stdout_bufsize": 4096},
            "faults": [],
            "toolchain": {"a": list(a), "b": list(b), "b_variant": ("single", "multi")[n % 2]} if a != b else {"a": list(a)},
            "probe": {"include_order": rng.randrange(1 << 30), "api": apisurface.sample(rng)},
        }
        n += 1
        plans.append(p)

    for io in (True, False):
        for u in tree.units:
            base({"units": [u], "constants": [], "io": io, "main_files": []})
        for c in tree.constants:
            base({"units": [], "constants": [c], "io": io, "main_files": []})
        for h in tree.public_headers:
            base({"units": [], "constants": [], "io": io, "main_files": [h]})
    return plans


# ------------------------------------------------------------------------------------------------
# systematic fault sweep: for a few fixed plans, every input file x every file-fault kind, write
# faults at buffer boundaries, interrupts at evenly spaced steps, every git outcome, every listdir
# error.  Random faulty variants above sample the same space; the sweep makes sure no input file and
# no region of the output is left without a fault.


def sweep_plans(tree, seed, tier):
    tcs = all_toolchains()
    plans = []

    def base(n, sel, env):
        e = {"listdir": {}, "extra_entries": {}, "clock": ["2026-09-26T12:00:00"], "git": "ok:sweep", "stdout_mode": "block", "stdout_bufsize": 4096, "crlf": False}
        e.update(env)
        plans.append({
            "seed": seed,
            "run": "sweep-%d" % n,
            "hashseed": HASHSEEDS[n % len(HASHSEEDS)],
            "selection": dict({"units": [], "constants": [], "io": True, "main_files": [], "version_id": None, "opt_order": ["units", "constants", "noio", "version"]}, **sel),
            "env": e,
            "faults": [],
            "toolchain": {"a": list(tcs[n % len(tcs)])},
            "probe": {"include_order": None, "api": []},
        })

    rng = rng_for(seed, "sweep")
    some_units = rng.sample(tree.units, min(2, len(tree.units)))
    some_const = rng.sample(tree.constants, min(1, len(tree.constants)))
    base(0, {"units": some_units, "constants": some_const}, {})
    base(1, {"units": "ALL", "constants": "ALL", "io": False, "version_id": "sweep"}, {"stdout_mode": "unbuffered", "listdir": {UNITS_DIR: {"shuffle": rng.randrange(1 << 30)}, CONSTANTS_DIR: "reversed"}})
    if tier == "thorough":
        base(2, {"units": rng.sample(tree.units, min(5, len(tree.units))), "main_files": rng.sample(tree.public_headers, 2)}, {"stdout_mode": "line", "stdout_bufsize": 65536})
        base(3, {"units": rng.sample(tree.units, min(3, len(tree.units))), "constants": "ALL"}, {"stdout_bufsize": 1048576, "crlf": True})
        base(4, {"units": "ALL", "constants": []}, {"stdout_bufsize": 8192, "listdir": {UNITS_DIR: "reversed"}})
    return plans


def sweep_variants(plan, twin, tier):
    """Concrete fault lists for one sweep plan, derived from what its fault-free twin did."""
    out = []
    mode = plan["env"].get("stdout_mode", "block")
    bufsize = int(plan["env"].get("stdout_bufsize", 4096))
    n_files = len(twin["opened"])
    for i in range(n_files):
        out.append([{"op": "open", "nth": i, "errno": "ENOENT", "from_access": 0}])
        out.append([{"op": "open", "nth": i, "errno": "ENOENT", "from_access": 1}])
        out.append([{"op": "open", "nth": i, "errno": "EACCES"}])
        out.append([{"op": "read", "nth": i, "permille": 500, "errno": "EIO"}])
        if tier == "thorough":
            out.append([{"op": "open", "nth": i, "errno": "EMFILE"}])
            out.append([{"op": "read", "nth": i, "permille": 0, "errno": "EIO"}])
            out.append([{"op": "read", "nth": i, "permille": 999, "errno": "EIO"}])
    for i in range(len(twin["listed"])):
        for en in ("EACCES", "ENOENT", "EIO"):
            out.append([{"op": "listdir", "nth": i, "errno": en}])
    n = twin["out_len"]
    stride = bufsize * (4 if tier == "quick" else 1)
    offsets = sorted(set([0, 1, max(0, n - 1), max(0, n - 2)] + list(range(stride, n, max(stride, n // 400 if tier == "thorough" else stride)))))
    for at in offsets:
        out.append([{"op": "write", "where": "at_byte", "at_byte": at, "kind": "EPIPE", "persistent": True}])
        out.append([{"op": "write", "where": "at_byte", "at_byte": at, "kind": "EIO", "persistent": False}])
        out.append([{"op": "write", "where": "at_byte", "at_byte": at, "kind": "short"}])
        out.append([{"op": "write", "where": "at_byte", "at_byte": at, "kind": "deferred", "errno": ("EDQUOT", "ENOSPC", "EIO")[(at // max(1, bufsize)) % 3]}])
    # ... and a fine grid over the end of the output (the last text chunk and the one before it)
    grid = (1, 64, 512, 1024, 2048, 3072, 4095, 4096, 4097, 4608, 5120, 6144, 7168, 8191, 8192, 8193, 9216, 12288, 16384) if tier == "quick" else tuple(range(1, 3 * 8192, 128))
    for dist in grid:
        if dist >= n:
            continue
        out.append([{"op": "write", "where": "from_end", "distance": dist, "kind": "ENOSPC", "persistent": True}])
        out.append([{"op": "write", "where": "from_end", "distance": dist, "kind": "EIO", "persistent": False}])
        out.append([{"op": "write", "where": "from_end", "distance": dist, "kind": "short"}])
    k = 24 if tier == "quick" else 200
    for j in range(k):
        pm = (1000 * j + 500) // k
        out.append([{"op": "interrupt", "permille": pm}])
        out.append([{"op": "memerror", "permille": pm}])
        out.append([{"op": "kill", "permille": pm}])
    variants = [{"variant": "sweep-%d" % i, "faults": f, "env": {}} for i, f in enumerate(out)]
    for g in GIT_HANDLED + GIT_UNHANDLED + ("empty",):
        variants.append({"variant": "sweep-git-%s" % g, "faults": [], "env": {"git": g}})
    for st in ("norepo", "untracked"):
        variants.append({"variant": "sweep-gitrepo-%s" % st, "faults": [], "env": {"git_repo": st}})
    # other benign environments, one at a time: line endings, stray directory entries, every clock
    variants.append({"variant": "sweep-crlf", "faults": [], "env": {"crlf": not plan["env"].get("crlf", False)}})
    for k in sorted(ENVIRON_CHOICES):
        for v in ENVIRON_CHOICES[k]:
            variants.append({"variant": "sweep-environ-%s=%s" % (k, v), "faults": [], "env": {"environ": {k: v}}})
    for enc in ENCODINGS:
        if enc != (plan["env"].get("encoding") or "utf-8"):
            variants.append({"variant": "sweep-encoding-%s" % enc, "faults": [], "env": {"encoding": enc}})
    variants.append({"variant": "sweep-stderr-closed", "faults": [], "env": {"stderr_closed": not plan["env"].get("stderr_closed", False)}})
    for g in GIT_HANDLED:
        variants.append({"variant": "sweep-stderr-closed-git-%s" % g, "faults": [], "env": {"stderr_closed": True, "git": g}})
    variants.append({"variant": "sweep-invoked-via-symlink", "faults": [], "env": {"invoked_via_symlink": not plan["env"].get("invoked_via_symlink", False)}})
    variants.append({"variant": "sweep-symlink-farm", "faults": [], "env": {"symlink_farm": not plan["env"].get("symlink_farm", False)}})
    variants.append({"variant": "sweep-strays", "faults": [], "env": {"extra_entries": {UNITS_DIR: list(STRAY), CONSTANTS_DIR: list(STRAY), "au/code/au": list(STRAY[:4])}}})
    for i, clk in enumerate(CLOCKS):
        variants.append({"variant": "sweep-clock-%d" % i, "faults": [], "env": {"clock": list(clk)}})
    for mode, bs in (("block", 65536), ("block", 1048576), ("line", 4096), ("unbuffered", 4096)):
        variants.append({"variant": "sweep-stdout-%s-%d" % (mode, bs), "faults": [], "env": {"stdout_mode": mode, "stdout_bufsize": bs}})
    return variants


def matrix_plans(tree, seed, tier):
    """Plans whose probe carries every API fragment and is built, in both packagings, under all six
    compiler x standard configurations (the incidental sample of C20's toolchain clause)."""
    n = 3 if tier == "quick" else 12
    tcs = all_toolchains()
    plans = []
    # Fragments that are about acceptance (is this a constant expression, is this call well-formed)
    # end the build of the whole probe under the configuration that rejects them, and whatever the
    # other fragments would have printed there is never compared (seen with S65: the rejection of
    # a constexpr use under clang++ hid the sign of a zero).  Every third matrix plan therefore
    # carries only the fragments that are about values.
    values_only = [f for f in apisurface.names() if "constexpr" not in f and "accept" not in f]
    for i in range(n):
        rng = rng_for(seed, "matrix", i)
        units = rng.sample(tree.units, min(3 if tier == "quick" else rng.choice((2, 4, 6)), len(tree.units)))
        consts = rng.sample(tree.constants, min(1 if i % 2 == 0 else 2, len(tree.constants)))
        # every other one is the plain case: the default package, the umbrella header first and
        # au/io.hh after it (what a program that just includes the library looks like); the rest
        # have a selection and a seeded include order
        plain = i % 2 == 1 or i % 3 == 2
        if plain:
            units, consts = [], []
        plans.append({
            "seed": seed,
            "run": "matrix-%d" % i,
            "hashseed": HASHSEEDS[i % len(HASHSEEDS)],
            "selection": {"units": units, "constants": consts, "io": True, "main_files": [], "version_id": "matrix", "opt_order": ["units", "constants", "noio", "version"]},
            "env": {"listdir": {}, "listdir_default": _listdir_spec(rng), "extra_entries": {}, "clock": ["2026-09-26T12:00:00"], "git": "ok:matrix", "stdout_mode": "block", "stdout_bufsize": 4096, "crlf": False},
            "faults": [],
            "toolchain": {"a": list(tcs[i % len(tcs)]), "matrix": True},
            "probe": {"include_order": None if plain else rng.randrange(1 << 30), "api": values_only if i % 3 == 2 else apisurface.names(), "user_macros": i % 2 == 0 and i % 3 != 2},
        })
    return plans


def singles(tree, seed):
    """Every unit alone and every constant alone (cheap probe, one toolchain each): the quick
    tier's guard against selections whose closure is only complete by luck of company."""
    tcs = all_toolchains()
    plans = []
    n = 0
    for kind, names in (("units", tree.units), ("constants", tree.constants)):
        for name in names:
            rng = rng_for(seed, "single", n)
            plans.append({
                "seed": seed,
                "run": "single-%s" % name,
                "hashseed": HASHSEEDS[n % len(HASHSEEDS)],
                "selection": {"units": [name] if kind == "units" else [], "constants": [name] if kind == "constants" else [], "io": bool(n % 2), "main_files": [], "version_id": "single", "opt_order": ["units", "constants", "noio", "version"]},
                "env": {"listdir": {}, "listdir_default": _listdir_spec(rng), "extra_entries": {}, "clock": ["2026-09-26T12:00:00"], "git": "ok:single", "stdout_mode": "block", "stdout_bufsize": 4096, "crlf": False},
                "faults": [],
                "toolchain": _single_toolchains(tcs[n % len(tcs)]),
                "probe": {"include_order": rng.randrange(1 << 30), "api": []},
            })
            n += 1
    return plans


def _single_toolchains(a):
    """Every unit and constant alone is built under two configurations that differ in compiler and
    in standard, one of them C++14 (where C++17's implicit `inline` does not paper over a missing
    or duplicated definition)."""
    other = "clang++" if a[0] == "g++" else "g++"
    b = (other, "c++14") if a[1] != "c++14" else (other, "c++20")
    return {"a": list(a), "b": list(b), "b_variant": "multi"}


# ------------------------------------------------------------------------------------------------
# sessions: sequences of invocations on one simulated machine (history)


def session_plans(tree, seed, tier):
    """The answer for a selection must not depend on what the generator was asked before on the
    same machine.  Each session is 2-4 invocations whose selections overlap, grow, shrink or
    repeat; between invocations some headers may be touched (newer mtime, same bytes)."""
    n = 24 if tier == "quick" else 200
    tcs = all_toolchains()
    out = []
    for i in range(n):
        rng = rng_for(seed, "session", i)
        env = {
            "listdir": {UNITS_DIR: _listdir_spec(rng), CONSTANTS_DIR: _listdir_spec(rng)},
            "listdir_default": _listdir_spec(rng),
            "extra_entries": {},
            "git": rng.choice(GIT_OK),
            "stdout_mode": rng.choices(("block", "unbuffered", "line"), (0.6, 0.25, 0.15))[0],
            "stdout_bufsize": rng.choice((4096, 4096, 8192, 65536)),
            "crlf": False,
            "git_repo": "tracked",
        }
        k = rng.choice((2, 3, 3, 4))
        first = rng.sample(tree.units, min(rng.choice((0, 1, 2, 3)), len(tree.units)))
        sels = []
        cur = list(first)
        for j in range(k):
            r = rng.random()
            if j == 0:
                units = list(cur)
            elif r < (0.5 if j == 1 else 0.3):  # grow: needs headers no earlier invocation has seen
                more = [u for u in rng.sample(tree.units, min(rng.choice((1, 2, 4)), len(tree.units))) if u not in cur]
                units = cur + more
            elif r < 0.6:  # repeat an earlier selection
                prev = sels[rng.randrange(len(sels))]["units"]
                units = list(prev) if isinstance(prev, list) else "ALL"
            elif r < 0.72:  # shrink
                units = cur[: len(cur) // 2]
            elif r < (0.76 if tier == "quick" else 0.82):
                units = "ALL"
            else:  # something else entirely
                units = rng.sample(tree.units, min(rng.choice((1, 2, 3)), len(tree.units)))
            if isinstance(units, list):
                cur = list(units)
            consts = rng.sample(tree.constants, min(rng.choice((0, 0, 1)), len(tree.constants)))
            sels.append({"units": units, "constants": consts, "io": rng.random() < 0.6, "main_files": [], "version_id": rng.choice(VERSION_IDS) if rng.random() < 0.5 else None, "opt_order": ["units", "constants", "noio", "version"]})
        invs = []
        touched = {}
        year = 2026
        prev_crashed = None
        for j, sel in enumerate(sels):
            if prev_crashed is not None and rng.random() < 0.6:
                # what one does after a crash: run the very same command again
                sel = dict(prev_crashed)
            prev_crashed = None
            if j > 0 and rng.random() < 0.35:
                for h in rng.sample(tree.public_headers, rng.choice((1, 2, 3))):
                    touched[CODE_PREFIX + h] = touched.get(CODE_PREFIX + h, 0) + 60 * (j + 1)
            e = dict(env, clock=["%04d-0%d-01T00:00:00" % (year, 1 + j)], touched=dict(touched))
            faults = []
            if j < len(sels) - 1 and rng.random() < 0.3:
                # crash this invocation somewhere (often right at the end, where a tool would be
                # saving its state); the following invocations must not be confused by the debris
                faults = [{"op": rng.choice(("interrupt", "kill", "kill", "memerror")), "permille": rng.choice((999, 995, 980, 500, rng.randrange(1000)))}]
                if faults[0]["op"] == "kill" and rng.random() < 0.5:
                    # a big job is what leaves big, half-written state behind
                    sel = dict(sel, units="ALL")
                prev_crashed = sel
            invs.append({"seed": seed, "run": "session-%d/%d" % (i, j), "hashseed": HASHSEEDS[i % len(HASHSEEDS)], "selection": sel, "env": e, "faults": faults,
                         "toolchain": {"a": list(tcs[(i + j) % len(tcs)])}, "probe": {"include_order": rng.randrange(1 << 30), "api": []}})
        out.append({"seed": seed, "run": "session-%d" % i, "hashseed": HASHSEEDS[i % len(HASHSEEDS)], "session": invs})
    return out


CODE_PREFIX = "au/code/"


def header_alone_cases(tree, seed, tier):
    """(header, toolchain) pairs for the stand-alone sample of clause (c)."""
    rng = rng_for(seed, "header-alone")
    core = [h for h in tree.public_headers if "/units/" not in h and "/constants/" not in h]
    rest = [h for h in tree.public_headers if h not in core]
    headers = core + (rest if tier == "thorough" else rng.sample(rest, min(12, len(rest))))
    cases = [{"seed": seed, "run": "alone-%s-%s/%s" % (h, c, s), "header_alone": h, "toolchain": {"a": [c, s]}} for h in headers for (c, s) in all_toolchains()]
    # every unit's forward declarations against its definition, toolchains rotating (thorough: all six)
    tcs = all_toolchains()
    for i, u in enumerate(tree.units):
        for tc in (tcs if tier == "thorough" else [tcs[i % len(tcs)]]):
            cases.append({"seed": seed, "run": "fwd-%s-%s/%s" % (u, tc[0], tc[1]), "fwd_unit": u, "toolchain": {"a": list(tc)}})
    return cases


def tree_growth_sessions(tree, seed, tier):
    """The tree itself changes between two invocations: a unit header is added (a contributor adds
    a unit; a branch is switched).  The same command - `--all-units`, with and without other
    options, or an explicit list that names the new unit - is run before and after, and once more.
    Whatever the generator remembers from the first run must not keep the new unit out."""
    from . import addedunit

    rng = rng_for(seed, "tree-growth")
    out = []
    shapes = [
        ({"units": "ALL", "constants": [], "io": True}, {"units": "ALL", "constants": [], "io": True}),
        ({"units": "ALL", "constants": "ALL", "io": False}, {"units": "ALL", "constants": "ALL", "io": False}),
        ({"units": [tree.units[0]], "constants": [], "io": True}, {"units": [tree.units[0], addedunit.STEM], "constants": [], "io": True}),
    ]
    if tier != "quick":
        shapes = shapes * 4
    shapes = [(b, a, False, True) for b, a in shapes]
    # The content of an existing header changes between two invocations while its time stamp moves
    # backwards, stays, or moves forwards (a release unpacked over a vendored copy, `cp -p`,
    # `rsync -a`, a branch switch followed by `git restore`'s time stamps, an ordinary edit).
    # Whatever the generator remembers about the first revision must not be served for the second.
    withnew = {"units": [tree.units[0], addedunit.STEM], "constants": [], "io": True}
    allsel = {"units": "ALL", "constants": [], "io": True}
    revs = [(allsel, allsel, True, {"rev": 2, "mtime": "older"}), (withnew, withnew, True, {"rev": 2, "mtime": "equal"}), (withnew, allsel, True, {"rev": 2, "mtime": "newer"}),
            (allsel, withnew, {"rev": 2, "mtime": "equal"}, True),
            # only a header that is reached transitively changes; the file the command line names does not
            (withnew, withnew, True, {"rev": 2, "mtime": "older", "where": "transitive"}), (allsel, allsel, True, {"rev": 2, "mtime": "newer", "where": "transitive"})]
    if tier != "quick":
        revs = revs + [(b, a, x, dict(y, mtime=m) if isinstance(y, dict) else y) for b, a, x, y in revs for m in ("older", "equal", "newer")]
    shapes += revs
    for n, (before, after, added0, added1) in enumerate(shapes):
        env = {"listdir": {UNITS_DIR: _listdir_spec(rng), CONSTANTS_DIR: _listdir_spec(rng)}, "listdir_default": _listdir_spec(rng), "extra_entries": {}, "git": "ok:growth", "stdout_mode": "block", "stdout_bufsize": 4096, "crlf": False, "git_repo": "tracked", "clock": ["2026-09-26T12:00:00"]}
        hs = HASHSEEDS[n % len(HASHSEEDS)]
        invs = []
        for k, (sel, added) in enumerate(((before, added0), (after, added1), (after, added1))):
            full = dict({"main_files": [], "version_id": "growth", "opt_order": ["units", "constants", "noio", "version"]}, **sel)
            e = dict(env)
            if added:
                e["added_unit"] = added
                full["added_unit"] = added
            invs.append({"seed": seed, "run": "growth-%d/%d" % (n, k), "hashseed": hs, "selection": full, "env": e, "faults": [], "toolchain": {"a": list(all_toolchains()[n % 6])}, "probe": {"include_order": None, "api": []}})
        out.append({"seed": seed, "run": "growth-%d" % n, "hashseed": hs, "session": invs})
    return out


def crash_sweep_sessions(tree, seed, tier):
    """Crash-consistency enumeration along the time axis: a fixed job is killed (or interrupted)
    at evenly spaced steps, then the very same command is run again - and once more.  Whatever
    the first run left behind, the re-runs must produce what a fresh run produces."""
    rng = rng_for(seed, "crash-sweep")
    points = [50, 150, 250, 350, 450, 550, 650, 750, 850, 930, 970, 990, 999] if tier == "quick" else list(range(20, 1000, 20)) + [995, 999]
    small = {"units": rng.sample(tree.units, min(3, len(tree.units))), "constants": rng.sample(tree.constants, 1), "io": True}
    big = {"units": "ALL", "constants": "ALL", "io": False}
    out = []
    n = 0
    for sel in (big, small):
        for pm in points:
            for op in (("kill",) if tier == "quick" else ("kill", "interrupt")):
                full = dict({"main_files": [], "version_id": "crash-sweep", "opt_order": ["units", "constants", "noio", "version"]}, **sel)
                # a different enumeration order per crash point: what is half-written when the
                # process dies (and where an 8 KiB block boundary cuts it) differs from run to run
                env = {"listdir": {UNITS_DIR: {"shuffle": rng.randrange(1 << 30)}, CONSTANTS_DIR: {"shuffle": rng.randrange(1 << 30)}}, "listdir_default": "sorted", "extra_entries": {}, "git": "ok:crash-sweep", "stdout_mode": "block", "stdout_bufsize": 4096, "crlf": False, "git_repo": "tracked", "clock": ["2026-09-26T12:00:00"]}
                hs = HASHSEEDS[n % len(HASHSEEDS)]
                invs = []
                for k in range(3):
                    invs.append({"seed": seed, "run": "crash-%d/%d" % (n, k), "hashseed": hs, "selection": dict(full), "env": dict(env), "faults": [{"op": op, "permille": pm}] if k == 0 else [],
                                 "toolchain": {"a": ["g++", "c++14"]}, "probe": {"include_order": None, "api": []}})
                out.append({"seed": seed, "run": "crash-%d" % n, "hashseed": hs, "session": invs})
                n += 1
    # ... and crashes placed right after the tool's own files reach the disk (dropped when the
    # tool writes none, as the unchanged one does): evenly spaced steps seldom hit the short
    # window between a flush in the middle of a file and its close
    for sel in (big, small):
        for j in (range(6) if tier == "quick" else range(24)):
            for delay, op in ((1, "kill"), (40, "powerloss")):
                full = dict({"main_files": [], "version_id": "crash-sweep", "opt_order": ["units", "constants", "noio", "version"]}, **sel)
                env = {"listdir": {UNITS_DIR: {"shuffle": rng.randrange(1 << 30)}, CONSTANTS_DIR: {"shuffle": rng.randrange(1 << 30)}}, "listdir_default": "sorted", "extra_entries": {}, "git": "ok:crash-sweep", "stdout_mode": "block", "stdout_bufsize": 4096, "crlf": False, "git_repo": "tracked", "clock": ["2026-09-26T12:00:00"]}
                hs = HASHSEEDS[n % len(HASHSEEDS)]
                invs = []
                for k in range(3):
                    invs.append({"seed": seed, "run": "crash-%d/%d" % (n, k), "hashseed": hs, "selection": dict(full), "env": dict(env), "faults": [{"op": op, "after_own_write": j, "delay": delay, "permille": 500}] if k == 0 else [],
                                 "toolchain": {"a": ["g++", "c++14"]}, "probe": {"include_order": None, "api": []}})
                out.append({"seed": seed, "run": "crash-%d" % n, "hashseed": hs, "session": invs})
                n += 1
    return out


def cli_shape_plans(tree, seed, tier):
    """Valid command lines with an unusual shape, each as its own deterministic plan: the same
    name twice, an extra main file that is a unit / constant header (alone, already selected,
    together with --noio), au/io.hh as an explicit main file, empty lists."""
    rng = rng_for(seed, "cli-shapes")
    tcs = all_toolchains()
    k = 1 if tier == "quick" else 4
    shapes = []
    for _ in range(k):
        u1, u2, u3 = rng.sample(tree.units, 3)
        c1 = rng.choice(tree.constants)
        shapes += [
            {"units": [u1, u1], "constants": [], "io": True},
            {"units": [u1, u2, u1, u3, u2], "constants": [c1, c1], "io": False},
            {"units": [], "constants": [c1, c1], "io": True},
            {"units": [u1], "constants": [], "io": True, "main_files": ["au/units/%s.hh" % u1]},
            {"units": [u1], "constants": [], "io": False, "main_files": ["au/units/%s.hh" % u2]},
            {"units": [], "constants": [], "io": False, "main_files": ["au/units/%s.hh" % u3, "au/constants/%s.hh" % c1]},
            {"units": [u2], "constants": [], "io": True, "main_files": ["au/io.hh", "au/math.hh"]},
            {"units": [u2], "constants": [], "io": False, "main_files": ["au/io.hh"]},
            {"units": "ALL", "constants": [c1], "io": True, "main_files": ["au/units/%s.hh" % u1]},
            {"units": [u1], "constants": [], "io": True, "user_main": {"style": "quoted", "unit": u2}},
            {"units": [], "constants": [], "io": False, "user_main": {"style": "angled", "unit": u3}},
            {"units": [u2], "constants": [c1], "io": True, "user_main": {"style": "mixed", "unit": u2}},
            {"units": [u3], "constants": [], "io": True, "user_main": {"style": "quoted", "unit": u1, "non_ascii": True}},
            {"units": [u3], "constants": [], "io": False, "user_main": {"style": "angled", "unit": u1, "non_ascii": True}, "_encoding": "latin-1"},
            {"units": [u1], "constants": [c1], "io": True, "user_main": {"style": "mixed", "unit": u3, "non_ascii": True}, "_encoding": "cp1252"},
            {"units": [u2], "constants": [], "io": True, "version_id": NON_ASCII_VERSION_IDS[0], "_encoding": "latin-1"},
            {"units": [u2], "constants": [], "io": False, "version_id": NON_ASCII_VERSION_IDS[1], "_encoding": "ascii"},
            {"units": [u1], "constants": [], "io": True, "version_id": NON_ASCII_VERSION_IDS[2]},
            {"units": [u2], "constants": [], "io": True, "version_id": MULTILINE_VERSION_IDS[0]},
            {"units": [u3], "constants": [c1], "io": False, "version_id": MULTILINE_VERSION_IDS[1]},
            {"units": [], "constants": [], "io": True, "version_id": MULTILINE_VERSION_IDS[2], "_user_macros": True},
            {"units": [u1], "constants": [], "io": True, "user_main": {"style": "quoted", "unit": u2, "dup_include": True}},
            {"units": [], "constants": [], "io": False, "user_main": {"style": "mixed", "unit": u3, "dup_include": True}},
        ]
    # a name that exists both as a unit and as a constant (standard_gravity today), asked for as both
    for both in sorted(set(tree.units) & set(tree.constants)):
        other_u = rng.choice([u for u in tree.units if u != both])
        other_c = rng.choice([c for c in tree.constants if c != both])
        shapes += [
            {"units": [both], "constants": [both], "io": True},
            {"units": [other_u, both], "constants": [other_c, both], "io": False},
            {"units": "ALL", "constants": [both], "io": True},
            {"units": [both], "constants": "ALL", "io": False},
        ]
    # two extra main files of which one includes the other, listed in both orders
    pairs = list(tree.unit_includes)
    rng.shuffle(pairs)
    for a, b in pairs[: (2 if tier == "quick" else 8)]:
        shapes += [
            {"units": [], "constants": [], "io": True, "main_files": ["au/units/%s.hh" % a, "au/units/%s.hh" % b]},
            {"units": [], "constants": [], "io": False, "main_files": ["au/units/%s.hh" % b, "au/units/%s.hh" % a]},
        ]
    plans = []
    for n, sel in enumerate(shapes):
        order = ["units", "constants", "noio", "version"]
        rng.shuffle(order)
        vid = rng.choice(VERSION_IDS + ("id with  two spaces", "v1.0+meta/branch"))
        full = dict({"main_files": [], "version_id": vid, "opt_order": order}, **sel)
        enc = full.pop("_encoding", "utf-8")
        um = bool(full.pop("_user_macros", False))
        plans.append({
            "seed": seed, "run": "cli-%d" % n, "hashseed": HASHSEEDS[n % len(HASHSEEDS)], "selection": full,
            "env": {"listdir": {}, "listdir_default": _listdir_spec(rng), "extra_entries": {}, "clock": ["2026-09-26T12:00:00"], "git": "ok:cli", "stdout_mode": "block", "stdout_bufsize": 4096, "crlf": False, "git_repo": "tracked", "encoding": enc},
            "faults": [], "toolchain": {"a": list(tcs[n % len(tcs)])}, "probe": {"include_order": rng.randrange(1 << 30), "api": [], "user_macros": um},
        })
    return plans


def concurrent_plans(tree, seed, tier):
    """Two generator processes overlapping in time on one machine (a build system running several
    single-file targets at once): A is descheduled at one of its system calls, B runs from start to
    finish, A continues.  Pairs of different selections x evenly spaced preemption points."""
    rng = rng_for(seed, "concurrent")
    pairs = 2 if tier == "quick" else 8
    points = [60, 180, 300, 420, 540, 660, 780, 880, 950, 990] if tier == "quick" else list(range(20, 1000, 25)) + [990, 999]
    tcs = all_toolchains()
    out = []
    n = 0
    for i in range(pairs):
        ua = rng.sample(tree.units, min(rng.choice((1, 2, 3)), len(tree.units)))
        ub = rng.sample(tree.units, min(rng.choice((1, 2, 4)), len(tree.units)))
        if i == 1:
            ub = "ALL"
        sels = [
            {"units": ua, "constants": [], "io": True, "main_files": [], "version_id": "A", "opt_order": ["units", "constants", "noio", "version"]},
            {"units": ub, "constants": rng.sample(tree.constants, 1), "io": False, "main_files": [], "version_id": "B", "opt_order": ["units", "constants", "noio", "version"]},
        ]
        env = {"listdir": {}, "listdir_default": _listdir_spec(rng), "extra_entries": {}, "git": "ok:concurrent", "stdout_mode": rng.choice(("block", "block", "unbuffered")), "stdout_bufsize": rng.choice((4096, 65536)), "crlf": False, "git_repo": "tracked", "clock": ["2026-09-26T12:00:00"]}
        for pm in points:
            hs = HASHSEEDS[n % len(HASHSEEDS)]
            invs = [{"seed": seed, "run": "concurrent-%d/%s" % (n, "AB"[k]), "hashseed": hs, "selection": dict(sels[k]), "env": dict(env), "faults": [], "toolchain": {"a": list(tcs[(n + k) % len(tcs)])}, "probe": {"include_order": None, "api": []}} for k in range(2)]
            out.append({"seed": seed, "run": "concurrent-%d" % n, "hashseed": hs, "concurrent": invs, "preempt_permille": pm})
            n += 1
    return out
