"""A user's own header given to the generator as an extra main file.

`make-single-file` takes "main files to aggregate"; besides library headers that can be a header of
the user's project which includes Au - with quotes or with angle brackets, both are common - and
defines things on top of it.  The file lives only in the simulated machine (it is planted in the
overlay file system under a path outside the repository); the multi-header build of the probe gets
the same text as a real file next to its sources."""

PATH = "/home/sim/project/acme_units.hh"
INCLUDE_NAME = "acme_units.hh"


def text(tree, um):
    unit = um.get("unit") or (tree.units[0] if tree.units else "seconds")
    ty = (tree.unit_types.get(unit) or ["Seconds"])[0]
    style = um.get("style", "quoted")

    def inc(h, k):
        angled = style == "angled" or (style == "mixed" and k % 2 == 0)
        return "#include <%s>" % h if angled else '#include "%s"' % h

    lines = [
        "// A header of some downstream project.",
        "#pragma once",
        "",
        inc("au/au.hh", 0),
        inc("au/units/%s.hh" % unit, 1),
    ]
    if um.get("dup_include"):
        # the same header named twice (legal, every header has its guard; it happens when two
        # blocks of includes are merged)
        lines += [inc("au/au.hh", 2), inc("au/units/%s.hh" % unit, 3)]
    lines += [
        "",
        "namespace acme {",
        "struct Widgets : decltype(au::%s{} * au::mag<7>()) {};" % ty,
        "constexpr auto widgets = au::QuantityMaker<Widgets>{};",
        "constexpr int widget_factor() { return 7; }",
    ]
    if um.get("non_ascii"):
        # downstream projects are not all ASCII: a name in a comment, a symbol in a string literal
        # (the file is UTF-8, as source files nowadays are)
        lines += [
            "// (c) Müller & Søn A/S — Ångström helpers, ±0.5 µm",
            'constexpr const char *maker() { return "M\u00fcller \u00b5-Technik"; }',
        ]
    else:
        lines += ['constexpr const char *maker() { return "Acme"; }']
    lines += [
        "}  // namespace acme",
        "",
    ]
    return "\n".join(lines)


def probe_lines(tree, um):
    unit = um.get("unit") or (tree.units[0] if tree.units else "seconds")
    ty = (tree.unit_types.get(unit) or ["Seconds"])[0]
    return [
        '    std::printf("acme-maker [%s]\\n", acme::maker());',
        '    std::printf("acme %%d %%d %%d\\n", acme::widgets(3).in(au::make_quantity<au::%s>(1).unit), acme::widget_factor(), int(acme::widgets(2) == au::make_quantity<au::%s>(14)));' % (ty, ty),
    ]
