"""Seeded API-surface fragments for the probe program.

Each plan draws a subset of these fragments.  Every fragment uses only what `au/au.hh` always
provides (seconds, minutes, hours, radians, prefixes, math, constants, chrono interop), so it is
valid for every selection, and prints only values every conforming compiler must print identically
(integers, labels, exactly representable doubles).  Each is one `{ ... }` block inside main().

The fragments deliberately walk the rep classes (sub-int, int, 64-bit, float, double): C20's
statement is about "any program using the public API".
"""

SNIPPETS = {}


def _s(name, body, needs_io=False, defs=None, must_print=None):
    # must_print: lines the fragment prints on any tree where C20 holds (used only for the one
    # clause of C20 that is absolute rather than differential: a forward declaration made with the
    # library's own helpers denotes the same type as the definition)
    SNIPPETS[name] = {"body": body.strip("\n"), "needs_io": needs_io, "defs": defs, "must_print": must_print or []}


def required_lines(probe_cfg, io):
    out = []
    for s in chosen(probe_cfg):
        sn = SNIPPETS[s]
        if sn.get("needs_io") and not io:
            continue
        out += sn.get("must_print") or []
    return out


_s("neg_i8", r"""
        const auto a = seconds(std::int8_t{-7});
        const auto b = -a;
        const auto c = +a;
        std::printf("neg_i8 %d %d %zu\n", int(b.in(seconds)), int(c.in(seconds)), sizeof(b));
""")

_s("neg_u16", r"""
        const auto a = minutes(std::uint16_t{3});
        const auto b = -a;
        std::printf("neg_u16 %u %zu\n", unsigned(b.in(minutes)), sizeof(b));
""")

_s("mod_u8", r"""
        const auto a = seconds(std::uint8_t{200});
        const auto b = seconds(std::uint8_t{7});
        const auto c = a % b;
        std::printf("mod_u8 %d %zu\n", int(c.in(seconds)), sizeof(c));
""")

_s("mod_i16", r"""
        const auto a = seconds(std::int16_t{200});
        const auto b = seconds(std::int16_t{7});
        const auto c = a % b;
        std::printf("mod_i16 %d %zu\n", int(c.in(seconds)), sizeof(c));
""")

_s("add_i16", r"""
        const auto a = seconds(std::int16_t{30000});
        const auto b = seconds(std::int16_t{10});
        const auto c = a - b;
        std::printf("add_i16 %d %zu %d\n", int(c.in(seconds)), sizeof(c), int(a > b));
""")

_s("cmp_mixed", r"""
        std::printf("cmp_mixed %d %d %d %d %d %d\n", int(minutes(2) == seconds(120)), int(hours(1) > minutes(59)),
                    int(seconds(61) >= minutes(1)), int(minutes(1.5) < seconds(91)), int(hours(2) != minutes(121)),
                    int(seconds(std::int64_t{3600}) <= hours(1)));
""")

_s("spaceship", r"""
#if defined(__cpp_impl_three_way_comparison) && __cpp_impl_three_way_comparison >= 201907L
        const bool lt = (minutes(1) <=> seconds(61)) < 0;
        const bool eq = (minutes(1) <=> seconds(60)) == 0;
        const bool plt = (make_quantity_point<Seconds>(1) <=> make_quantity_point<Seconds>(2)) < 0;
#else
        const bool lt = minutes(1) < seconds(61);
        const bool eq = minutes(1) == seconds(60);
        const bool plt = make_quantity_point<Seconds>(1) < make_quantity_point<Seconds>(2);
#endif
        std::printf("spaceship %d %d %d\n", int(lt), int(eq), int(plt));
""")

_s("chrono", r"""
        const auto q = as_quantity(std::chrono::milliseconds(1500));
        const std::chrono::nanoseconds ns = as_chrono_duration(seconds(2));
        const std::chrono::duration<double> d = as_chrono_duration(minutes(1.5));
        std::printf("chrono %lld %s %lld %.17g\n", static_cast<long long>(q.in(milli(seconds))), unit_label(decltype(q)::unit),
                    static_cast<long long>(ns.count()), d.count());
""", defs="#include <chrono>\n")

_s("round", r"""
        std::printf("round %d %d %d %.17g %.17g\n", round_in<int>(seconds, milli(seconds)(1500.0)),
                    floor_in<int>(seconds, milli(seconds)(1999.0)), ceil_in<int>(minutes, seconds(61.0)),
                    round_as(minutes, seconds(89.0)).in(minutes), floor_as<double>(hours, minutes(119)).in(hours));
""")

_s("inverse", r"""
        const auto f = inverse(seconds)(250);
        std::printf("inverse %d %.17g %s\n", inverse_in(micro(seconds), f), inverse_as(seconds, inverse(seconds)(4.0)).in(seconds),
                    unit_label(inverse(seconds)));
""")

_s("point", r"""
        constexpr auto p = make_quantity_point<Seconds>(100);
        constexpr auto q = make_quantity_point<Minutes>(1);
        std::printf("point %d %d %d %d\n", (p - q).in(seconds), (q + seconds(5)).in(Seconds{}), int(p > q), int(p == q + seconds(40)));
""")

_s("kelvin_like_origin", r"""
        constexpr auto p = make_quantity_point<ProbeOffs>(5);
        std::printf("origin %d %d\n", p.in(Seconds{}), int(p > make_quantity_point<Seconds>(19)));
""", defs="struct ProbeOffs : decltype(au::Seconds{} * au::mag<2>()) { static constexpr auto origin() { return au::seconds(10); } };\n")

_s("zero", r"""
        std::printf("zero %d %d %d %d\n", int(seconds(0) == ZERO), int(minutes(-1) < ZERO), int(hours(1.0) > ZERO),
                    (seconds(5) + ZERO).in(seconds));
""")

_s("powers", r"""
        const auto a = int_pow<2>(seconds(7));
        const auto r = sqrt(squared(seconds)(49.0));
        std::printf("powers %d %.17g %s %s\n", a.in(squared(seconds)), r.in(seconds), unit_label(squared(seconds)),
                    unit_label(cubed(minutes)));
""")

_s("minmax", r"""
        std::printf("minmax %d %d %d %.17g\n", min(seconds(70), minutes(1)).in(seconds), max(seconds(70), minutes(1)).in(seconds),
                    clamp(seconds(500), minutes(1), minutes(2)).in(seconds), max(seconds(0.5), ZERO).in(seconds));
""")

_s("minmax_float_mixed", r"""
        // min / max of two different Quantity types whose common rep is a floating-point type:
        // zeros of opposite sign, NaN in either position, and use in constant expressions
        const auto z1 = max(seconds(-0.0f), milli(seconds)(0.0f));
        const auto z2 = min(milli(seconds)(0.0), seconds(-0.0));
        const auto z3 = max(seconds(-0.0), milli(seconds)(0.0f));
        const auto z4 = min(seconds(0.0L), milli(seconds)(-0.0L));
        const auto z5 = max(milli(seconds)(0.0f), seconds(-0.0f));
        const double qn = std::numeric_limits<double>::quiet_NaN();
        const auto n1 = max(seconds(qn), milli(seconds)(1.0));
        const auto n2 = max(milli(seconds)(1.0), seconds(qn));
        const auto n3 = min(seconds(qn), milli(seconds)(1.0));
        const auto n4 = min(milli(seconds)(1.0), seconds(qn));
        std::printf("minmax_float_mixed %d%d%d%d%d %d%d%d%d %.17g\n", int(std::signbit(z1.in(milli(seconds)))), int(std::signbit(z2.in(milli(seconds)))),
                    int(std::signbit(z3.in(milli(seconds)))), int(std::signbit(z4.in(milli(seconds)))), int(std::signbit(z5.in(milli(seconds)))),
                    int(std::isnan(n1.in(milli(seconds)))), int(std::isnan(n2.in(milli(seconds)))), int(std::isnan(n3.in(milli(seconds)))), int(std::isnan(n4.in(milli(seconds)))),
                    (seconds(1.0) / max(seconds(-0.0), milli(seconds)(0.0))).in(seconds / milli(seconds)));
""")

_s("minmax_mixed_constexpr", r"""
        constexpr auto c1 = max(seconds(1.0), milli(seconds)(2.0));
        constexpr auto c2 = min(seconds(1.0f), milli(seconds)(2.0));
        constexpr auto c3 = clamp(seconds(5.0), milli(seconds)(1.0), minutes(1.0f));
        constexpr auto c4 = max(seconds(1), milli(seconds)(2));
        std::printf("minmax_mixed_constexpr %.17g %.17g %.17g %d\n", c1.in(milli(seconds)), c2.in(milli(seconds)), c3.in(milli(seconds)), int(c4.in(milli(seconds))));
""")

_s("labels", r"""
        std::printf("labels [%s] [%s] [%s] [%s] [%s] [%s]\n", unit_label(seconds * minutes), unit_label(hours / seconds),
                    unit_label(milli(seconds)), unit_label(Seconds{} * mag<3>() / mag<7>()), unit_label(pow<-2>(kilo(hours))),
                    unit_label(radians / seconds));
""")

_s("constant", r"""
        constexpr auto C = make_constant(minutes * mag<5>());
        std::printf("constant %d %.17g %s %d\n", C.as<int>(seconds).in(seconds), (C * 2.0).in(minutes), unit_label(C),
                    int(C.as<int>(minutes) == seconds(300)));
""")

_s("lossy", r"""
        std::printf("lossy %d %d %d %d %d\n", int(is_conversion_lossy(seconds(61), minutes)), int(is_conversion_lossy(seconds(120), minutes)),
                    int(will_conversion_overflow(hours(std::int16_t{10}), seconds)), int(will_conversion_overflow(hours(std::int16_t{9}), seconds)),
                    int(will_conversion_truncate(seconds(std::uint8_t{59}), minutes)));
""")

_s("conv_checks_constexpr", r"""
        // the conversion checkers are documented as constexpr: used in constant expressions, with
        // floating point reps and conversion factors below and above one, rational and irrational
        constexpr auto sevenths = seconds * (mag<7>() / mag<3>());
        constexpr auto pirad = radians * Magnitude<Pi>{};
        constexpr bool down_d = will_conversion_overflow(seconds(1.0), sevenths);
        constexpr bool up_d = will_conversion_overflow(sevenths(1.0), seconds);
        constexpr bool down_f = will_conversion_overflow(seconds(1.0f), sevenths);
        constexpr bool irr_down = will_conversion_overflow(radians(1.0), pirad);
        constexpr bool irr_up = will_conversion_overflow(pirad(1.0), radians);
        constexpr bool lossy = is_conversion_lossy(seconds(2.5), sevenths);
        constexpr bool trunc = will_conversion_truncate(seconds(2.5), sevenths);
        constexpr bool int_up = will_conversion_overflow(hours(std::int32_t{600000}), seconds);
        constexpr bool int_rat = will_conversion_overflow(seconds(std::int32_t{2000000000}), seconds * (mag<3>() / mag<7>()));
        constexpr bool kilo_no = will_conversion_overflow(kilo(seconds)(1.0e300), seconds);
        constexpr bool kilo_yes = will_conversion_overflow(kilo(seconds)(1.0e306), seconds);
        constexpr bool milli_no = will_conversion_overflow(seconds(1.0e306), kilo(seconds));
        constexpr bool f_yes = will_conversion_overflow<float>(hours(1.0e36), seconds);
        static_assert(!down_d && !irr_down, "scaling down cannot overflow");
        std::printf("conv_checks_constexpr %d %d %d %d %d %d %d %d %d %d %d %d %d\n", int(down_d), int(up_d), int(down_f), int(irr_down), int(irr_up), int(lossy), int(trunc),
                    int(int_up), int(int_rat), int(kilo_no), int(kilo_yes), int(milli_no), int(f_yes));
""")

_s("coerce", r"""
        std::printf("coerce %d %d %d %.17g\n", seconds(125).coerce_in(minutes), minutes(2).coerce_as(seconds).in(seconds),
                    int(minutes(std::uint8_t{5}).coerce_in<std::uint8_t>(seconds)), seconds(90).as<double>(minutes).in(minutes));
""")

_s("rep_cast", r"""
        const auto a = rep_cast<int>(seconds(7.75));
        const auto b = rep_cast<float>(minutes(3));
        const auto c = rep_cast<std::int8_t>(seconds(300));
        std::printf("rep_cast %d %.9g %d %zu\n", a.in(seconds), double(b.in(minutes)), int(c.in(seconds)), sizeof(c));
""")

_s("float_ops", r"""
        const auto a = seconds(1.5f);
        const auto b = a * 4 + milli(seconds)(250.0f);
        std::printf("float_ops %.9g %zu %d\n", double(b.in(milli(seconds))), sizeof(b), int(std::is_same<decltype(b)::Rep, float>::value));
""")

_s("mag", r"""
        std::printf("mag %d %.17g %s %s %d\n", get_value<int>(mag<60>()), get_value<double>(mag<1>() / mag<8>()),
                    mag_label(mag<5>() / mag<7>()), mag_label(mag<1000>()), int(is_integer(mag<6>() / mag<3>())));
""")

_s("limits", r"""
        using Q = QuantityI32<Seconds>;
        std::printf("limits %d %d %d\n", std::numeric_limits<Q>::max().in(seconds) == std::numeric_limits<int>::max(),
                    std::numeric_limits<Q>::lowest().in(seconds) == std::numeric_limits<int>::lowest(),
                    int(std::numeric_limits<Quantity<Minutes, std::uint8_t>>::max().in(minutes)));
""", defs="#include <limits>\n")

_s("trig", r"""
        std::printf("trig %.17g %.17g %.17g %.17g\n", sin(radians(0.0)), cos(radians(0.0)), arcsin(0.0).in(radians), arctan(0.0).in(radians));
""")

_s("fmod", r"""
        std::printf("fmod %.17g %.17g %.17g %d\n", fmod(seconds(7.5), seconds(2.0)).in(seconds), remainder(seconds(7.0), seconds(2.0)).in(seconds),
                    abs(seconds(-2.5)).in(seconds), abs(minutes(-3)).in(minutes));
""")

_s("implicit", r"""
        const QuantityD<Hours> h = minutes(90);
        const QuantityI32<Seconds> s = minutes(2);
        const Quantity<Milli<Seconds>, std::int64_t> ms = seconds(std::int64_t{4000000000LL});
        std::printf("implicit %.17g %d %lld\n", h.in(hours), s.in(seconds), static_cast<long long>(ms.in(milli(seconds))));
""")

_s("symbols", r"""
        using symbols::s;
        constexpr auto v = 5 * s;
        constexpr auto w = 3.5 / s;
        std::printf("symbols %d %.17g %s\n", v.in(seconds), w.in(inverse(seconds)), unit_label(decltype(w)::unit));
""")

_s("ratio", r"""
        std::printf("ratio %d %d %d %d\n", int(unit_ratio(hours, seconds) == mag<3600>()), int(unit_ratio(seconds, minutes) == mag<1>() / mag<60>()),
                    int(is_dimensionless(seconds / minutes)), int(is_unitless_unit(seconds / seconds)));
""")

_s("common_type", r"""
        using A = decltype(seconds(1));
        using B = decltype(minutes(1.0));
        using C = std::common_type_t<A, B>;
        std::printf("common_type %d %d %s\n", int(std::is_same<C::Rep, double>::value), int(std::is_same<C::Unit, Seconds>::value),
                    unit_label(C::unit));
""")

_s("shorthand", r"""
        auto a = seconds(10);
        a += minutes(1);
        a -= seconds(5);
        a *= 2;
        a /= 5;
        auto d = minutes(1.0);
        d += seconds(30);
        d /= 2.0;
        std::printf("shorthand %d %.17g\n", a.in(seconds), d.in(minutes));
""")

_s("u64", r"""
        constexpr auto a = seconds(std::uint64_t{18446744073709551615ULL});
        constexpr auto b = a / std::uint64_t{5};
        std::printf("u64 %llu %d %d\n", static_cast<unsigned long long>(b.in(seconds)), int(will_conversion_overflow(a, milli(seconds))),
                    int(a > hours(std::uint64_t{1})));
""")

_s("data_in", r"""
        auto a = seconds(3);
        a.data_in(seconds) = 9;
        const auto b = minutes(4);
        std::printf("data_in %d %d\n", a.in(seconds), b.data_in(minutes));
""")

_s("divide_dimensionless", r"""
        const auto r = minutes(3.0) / seconds(30.0);
        std::printf("divide %.17g %.17g %d\n", r.in(unos_like()), as_raw_number(seconds(7.0) / seconds(2.0)), int(integer_quotient(seconds(7), seconds(2))));
""", defs="constexpr auto unos_like() { return au::UnitProductT<>{}; }\n")

_s("io_compound", r"""
        std::ostringstream o;
        o << (seconds * minutes)(3) << '|' << (hours / seconds)(2.5) << '|' << milli(seconds)(std::int8_t{-5}) << '|' << make_constant(minutes * mag<5>())
          << '|' << symbols::s << '|' << make_quantity_point<Milli<Seconds>>(std::uint8_t{200}) << '|' << (mag<3>() / mag<4>());
        std::printf("io_compound %s\n", o.str().c_str());
""", needs_io=True)

_s("io_manip", r"""
        std::ostringstream o;
        o.width(10);
        o.fill('*');
        o << seconds(42) << '|';
        o.precision(3);
        o << minutes(0.125) << '|' << std::hex << seconds(255);
        std::printf("io_manip %s\n", o.str().c_str());
""", needs_io=True)


_s("chrono_periods", r"""
        probe_chrono_row<std::nano>("nano");
        probe_chrono_row<std::micro>("micro");
        probe_chrono_row<std::milli>("milli");
        probe_chrono_row<std::ratio<1>>("1");
        probe_chrono_row<std::ratio<60>>("60");
        probe_chrono_row<std::ratio<3600>>("3600");
        probe_chrono_row<std::ratio<86400>>("86400");
        probe_chrono_row<std::ratio<604800>>("604800");
        probe_chrono_row<std::ratio<2629746>>("2629746");
        probe_chrono_row<std::ratio<31556952>>("31556952");
        probe_chrono_row<std::ratio<1, 30>>("1/30");
        probe_chrono_row<std::ratio<5, 3>>("5/3");
""", defs="""#include <chrono>
#include <ratio>
template <typename Rep, typename Period>
void probe_chrono_one(const char *tag, const char *rep) {
    const auto q = au::as_quantity(std::chrono::duration<Rep, Period>{3});
    const std::chrono::duration<Rep, Period> back = au::as_chrono_duration(q);
    std::printf("  chrono_periods %s %s [%s] %zu %d\\n", tag, rep, au::unit_label(decltype(q)::unit), sizeof(q), int(back.count() == 3));
}
template <typename Period>
void probe_chrono_row(const char *tag) {
    probe_chrono_one<std::int64_t, Period>(tag, "i64");
    probe_chrono_one<int, Period>(tag, "int");
    probe_chrono_one<double, Period>(tag, "double");
}
""")


_s("chrono_compare", r"""
        std::printf("chrono_compare %d %d %d %d %d %d\n", int(seconds(60) == std::chrono::minutes(1)), int(std::chrono::minutes(1) == seconds(60)),
                    int(seconds(61) != std::chrono::minutes(1)), int(std::chrono::milliseconds(999) < seconds(1)),
                    int(minutes(2) >= std::chrono::seconds(120)), int((seconds(30) + std::chrono::seconds(30)) == minutes(1)));
""", defs="#include <chrono>\n")

_s("point_mixed", r"""
        constexpr auto a = make_quantity_point<Milli<Seconds>>(std::int64_t{61000});
        constexpr auto b = make_quantity_point<Minutes>(1);
        std::printf("point_mixed %d %d %d %lld %s\n", int(a > b), int(a == b), int(a != b), static_cast<long long>((a - b).in(milli(seconds))),
                    unit_label(decltype(a - b)::unit));
""")

_s("zero_ops", r"""
        std::printf("zero_ops %d %d %d %d %.17g\n", int(ZERO == ZERO), int(ZERO < seconds(1)), int(minutes(0) >= ZERO), (ZERO - seconds(4)).in(seconds),
                    (minutes(1.5) - ZERO).in(minutes));
        const QuantityD<Seconds> z = ZERO;
        std::printf("zero_ops2 %.17g %d\n", z.in(seconds), int(make_quantity_point<Seconds>(0) - make_quantity_point<Seconds>(0) == ZERO));
""")

_s("mag_compare", r"""
        std::printf("mag_compare %d %d %d %d\n", int(mag<6>() == mag<2>() * mag<3>()), int(mag<6>() != mag<7>()), int(is_rational(mag<3>() / mag<4>())),
                    int(is_integer(mag<3>() / mag<4>())));
""")

_s("constant_compare", r"""
        constexpr auto C = make_constant(minutes * mag<2>());
        std::printf("constant_compare %d %d %d %d\n", int(C == seconds(120)), int(seconds(119) < C), int(C >= minutes(2)), int((C * C).as<int>(squared(minutes)) == squared(minutes)(4)));
""")

_s("int_division", r"""
        std::printf("int_division %d %d %d\n", (seconds(17) / 5).in(seconds), (minutes(7) / unblock_int_div(seconds(2))).in(minutes / seconds), int(as_raw_number(integer_quotient(minutes(60), minutes(7)))));
""")

_s("nttp_enum", r"""
        constexpr QuantityI32<Seconds>::NTTP n = seconds(5);
        constexpr QuantityI32<Seconds> back = from_nttp(n);
        std::printf("nttp_enum %d %d\n", back.in(seconds), int(std::is_enum<QuantityI32<Seconds>::NTTP>::value));
""")

_s("scaled_units", r"""
        constexpr auto dozen_s = seconds * mag<12>();
        constexpr auto third_min = minutes / mag<3>();
        std::printf("scaled_units %d %d %s %s %d\n", dozen_s(5).in(seconds), third_min(6).in(seconds), unit_label(dozen_s), unit_label(third_min),
                    int(dozen_s(5) == minutes(1)));
""")

_s("common_units", r"""
        std::printf("common_units [%s] [%s] [%s] %d\n", unit_label(common_unit(seconds, minutes)), unit_label(common_unit(minutes * mag<2>(), seconds * mag<90>())),
                    unit_label(common_unit(hours, minutes, seconds)), (minutes(1) + seconds(1)).in(seconds));
""")

_s("sub_int_mixed", r"""
        const auto a = seconds(std::int8_t{100});
        const auto b = seconds(std::int16_t{1000});
        const auto c = a + b;
        const auto d = milli(seconds)(std::uint8_t{250}) * std::uint8_t{2};
        auto e = seconds(std::int8_t{5});
        e += seconds(std::int8_t{6});
        e *= std::int8_t{2};
        std::printf("sub_int_mixed %d %zu %d %zu %d\n", int(c.in(seconds)), sizeof(c), int(d.in(milli(seconds))), sizeof(d), int(e.in(seconds)));
""")

_s("float_compare", r"""
        std::printf("float_compare %d %d %d %.9g\n", int(seconds(0.5f) < milli(seconds)(501.0f)), int(minutes(1.0f) == seconds(60.0)), int(seconds(1) < seconds(1.5)),
                    double((seconds(1.5f) + minutes(1)).in(seconds)));
""")

_s("round_sub_int", r"""
        std::printf("round_sub_int %d %d %d\n", int(round_in<std::int8_t>(seconds, milli(seconds)(2499.0))), int(ceil_in<std::uint16_t>(minutes, seconds(3601.0))),
                    int(floor_as<std::int16_t>(seconds, milli(seconds)(-1.0)).in(seconds)));
""")

_s("math_rep_types", r"""
        probe_math_types<float>("float");
        probe_math_types<double>("double");
        probe_math_types<long double>("long double");
""", defs="""template <typename R>
void probe_math_types(const char *rep) {
    using namespace au;
    const auto a = seconds(R(2.5));
    const auto b = seconds(R(-0.5));
    const auto c1 = copysign(a, b);
    const auto c2 = copysign(a, R(-1));
    const auto c3 = copysign(R(3), b);
    const auto f = fmod(a, seconds(R(1)));
    const auto r = remainder(a, seconds(R(2)));
    const auto ab = abs(b);
    const auto mn = min(a, b);
    const auto mx = max(a, milli(seconds)(R(1)));
    const auto cl = clamp(a, seconds(R(0)), seconds(R(1)));
    const auto sq = sqrt(squared(seconds)(R(6.25)));
    const auto hy = hypot(seconds(R(3)), seconds(R(4)));
    const auto rd = round_as(seconds, milli(seconds)(R(2500)));
    const auto fl = floor_as(seconds, a);
    const auto ce = ceil_as(seconds, a);
    const auto inv = inverse_as(seconds, inverse(seconds)(R(4)));
    std::printf("  math_rep_types %s sizes %zu %zu %zu %zu %zu %zu %zu %zu %zu %zu %zu %zu %zu %zu %zu\\n", rep, sizeof(c1), sizeof(c2), sizeof(c3), sizeof(f), sizeof(r),
                sizeof(ab), sizeof(mn), sizeof(mx), sizeof(cl), sizeof(sq), sizeof(hy), sizeof(rd), sizeof(fl), sizeof(ce), sizeof(inv));
    std::printf("  math_rep_types %s values %.17g %.17g %.17g %.17g %.17g %.17g %.17g %.17g %.17g %.17g %.17g %.17g %.17g %.17g\\n", rep, double(c1.in(seconds)), double(c2.in(seconds)),
                double(c3), double(f.in(seconds)), double(r.in(seconds)), double(ab.in(seconds)), double(mn.in(seconds)), double(mx.in(seconds)), double(cl.in(seconds)),
                double(sq.in(seconds)), double(hy.in(seconds)), double(rd.in(seconds)), double(fl.in(seconds)), double(ce.in(seconds)));
    std::printf("  math_rep_types %s inv %.17g isnan %d\\n", rep, double(inv.in(seconds)), int(isnan(a)));
}
""")

_s("trig_rep_types", r"""
        probe_trig_types<float>("float");
        probe_trig_types<double>("double");
        probe_trig_types<long double>("long double");
""", defs="""template <typename R>
void probe_trig_types(const char *rep) {
    using namespace au;
    const auto s0 = sin(radians(R(0)));
    const auto c0 = cos(radians(R(0)));
    const auto t0 = tan(radians(R(0)));
    const auto as = arcsin(R(0));
    const auto ac = arccos(R(1));
    const auto at = arctan(R(0));
    std::printf("  trig_rep_types %s %zu %zu %zu %zu %zu %zu %.17g %.17g %.17g %.17g %.17g %.17g\\n", rep, sizeof(s0), sizeof(c0), sizeof(t0), sizeof(as), sizeof(ac), sizeof(at),
                double(s0), double(c0), double(t0), double(as.in(radians)), double(ac.in(radians)), double(at.in(radians)));
}
""")

_s("int_math_types", r"""
        const auto a = abs(seconds(std::int8_t{-5}));
        const auto m = min(seconds(std::int16_t{4}), seconds(std::int16_t{9}));
        const auto x = max(minutes(std::uint8_t{2}), minutes(std::uint8_t{3}));
        const auto c = clamp(seconds(std::int64_t{50}), seconds(std::int64_t{0}), seconds(std::int64_t{10}));
        const auto p = int_pow<3>(seconds(std::int16_t{3}));
        std::printf("int_math_types %d %zu %d %zu %d %zu %lld %zu %d %zu\n", int(a.in(seconds)), sizeof(a), int(m.in(seconds)), sizeof(m), int(x.in(minutes)), sizeof(x),
                    static_cast<long long>(c.in(seconds)), sizeof(c), int(p.in(cubed(seconds))), sizeof(p));
""")

_s("fwd_helpers", r"""
        std::printf("fwd_helpers pow %d %d %d %d %d %d\n", int(is_forward_declared_unit_valid(ForwardDeclareUnitPow<Seconds, -1>{})),
                    int(is_forward_declared_unit_valid(ForwardDeclareUnitPow<Seconds, 2>{})), int(is_forward_declared_unit_valid(ForwardDeclareUnitPow<Seconds, 1, 2>{})),
                    int(is_forward_declared_unit_valid(ForwardDeclareUnitPow<Seconds, -1, 2>{})), int(is_forward_declared_unit_valid(ForwardDeclareUnitPow<Minutes, -3, 2>{})),
                    int(is_forward_declared_unit_valid(ForwardDeclareUnitPow<Hours, 2, 3>{})));
        std::printf("fwd_helpers label [%s] [%s]\n", unit_label(typename ForwardDeclareUnitPow<Seconds, -1, 2>::unit_type{}), unit_label(UnitPowerT<Seconds, -1, 2>{}));
""", must_print=["fwd_helpers pow 1 1 1 1 1 1"])

# ------------------------------------------------------------------------------------------------
# rep batteries: the same operations instantiated for every built-in rep class.  C20's quantifier
# asks for "a generated API-surface program per rep class including sub-int reps"; both genuine
# defects found on the unchanged tree (section 8.2 of DESIGN.md) were of that shape.

REPS = [("std::int8_t", "i8"), ("std::uint8_t", "u8"), ("std::int16_t", "i16"), ("std::uint16_t", "u16"), ("int", "i32"), ("unsigned", "u32"),
        ("std::int64_t", "i64"), ("std::uint64_t", "u64"), ("float", "f32"), ("double", "f64"), ("long double", "f80")]
INT_REPS = [r for r in REPS if r[1][0] in "iu"]
FLOAT_REPS = [r for r in REPS if r[1][0] == "f"]


def _inst(fn, reps):
    return "\n".join('        %s<%s>("%s");' % (fn, t, n) for t, n in reps)


_s("rep_arith", _inst("probe_rep_arith", REPS), defs="""template <typename R>
void probe_rep_arith(const char *rep) {
    using namespace au;
    const auto a = seconds(R(12));
    const auto b = seconds(R(5));
    const auto sum = a + b;
    const auto dif = a - b;
    const auto neg = -b;
    const auto pos = +b;
    const auto mul = a * R(2);
    const auto lmul = R(2) * a;
    const auto quo = a / R(4);
    const auto rat = a / b;
    auto acc = a;
    acc += b;
    acc -= seconds(R(2));
    acc *= R(2);
    acc /= R(3);
    std::printf("  rep_arith %s %.17g %.17g %.17g %.17g %.17g %.17g %.17g %.17g %.17g | %zu %zu %zu %zu %zu %zu %zu %zu %zu | %d %d %d %d %d %d\\n", rep,
                double(sum.in(seconds)), double(dif.in(seconds)), double(neg.in(seconds)), double(pos.in(seconds)), double(mul.in(seconds)),
                double(lmul.in(seconds)), double(quo.in(seconds)), double(as_raw_number(rat)), double(acc.in(seconds)),
                sizeof(sum), sizeof(dif), sizeof(neg), sizeof(pos), sizeof(mul), sizeof(lmul), sizeof(quo), sizeof(rat), sizeof(acc),
                int(a == b), int(a != b), int(a < b), int(a <= b), int(a > b), int(a >= b));
}
""")

_s("rep_mod", _inst("probe_rep_mod", INT_REPS), defs="""template <typename R>
void probe_rep_mod(const char *rep) {
    using namespace au;
    const auto a = seconds(R(47));
    const auto b = seconds(R(5));
    const auto m = a % b;
    std::printf("  rep_mod %s %lld %zu %lld\\n", rep, static_cast<long long>(m.in(seconds)), sizeof(m), static_cast<long long>(as_raw_number(integer_quotient(a, b))));
}
""")

_s("rep_point", _inst("probe_rep_point", REPS), defs="""template <typename R>
void probe_rep_point(const char *rep) {
    using namespace au;
    const auto p = make_quantity_point<Seconds>(R(40));
    const auto q = make_quantity_point<Seconds>(R(15));
    const auto d = p - q;
    const auto up = q + seconds(R(3));
    const auto dn = p - seconds(R(3));
    auto acc = q;
    acc += seconds(R(7));
    acc -= seconds(R(2));
    std::printf("  rep_point %s %.17g %.17g %.17g %.17g | %zu %zu %zu %zu | %d %d %d %d %d %d\\n", rep, double(d.in(seconds)), double(up.in(Seconds{})),
                double(dn.in(Seconds{})), double(acc.in(Seconds{})), sizeof(d), sizeof(up), sizeof(dn), sizeof(acc),
                int(p == q), int(p != q), int(p < q), int(p <= q), int(p > q), int(p >= q));
}
""")

_s("rep_zero_minmax", _inst("probe_rep_zero_minmax", REPS), defs="""template <typename R>
void probe_rep_zero_minmax(const char *rep) {
    using namespace au;
    const auto a = seconds(R(9));
    const auto b = seconds(R(4));
    const auto mn = min(a, b);
    const auto mx = max(a, b);
    const auto cl = clamp(a, seconds(R(1)), seconds(R(6)));
    const Quantity<Seconds, R> z = ZERO;
    std::printf("  rep_zero_minmax %s %.17g %.17g %.17g %.17g | %zu %zu %zu | %d %d %d %d\\n", rep, double(mn.in(seconds)), double(mx.in(seconds)), double(cl.in(seconds)),
                double(z.in(seconds)), sizeof(mn), sizeof(mx), sizeof(cl), int(a > ZERO), int(z == ZERO), int(b != ZERO), int(ZERO < b));
}
""")

_s("rep_convert", _inst("probe_rep_convert", REPS), defs="""template <typename R>
void probe_rep_convert(const char *rep) {
    using namespace au;
    const auto a = minutes(R(2));
    const auto as_d = a.template as<double>(seconds);
    const auto co = a.coerce_as(seconds);
    const auto co_in = a.template coerce_in<R>(seconds);
    const auto rc = rep_cast<R>(seconds(90.0));
    const auto back = rep_cast<double>(a);
    const QuantityD<Seconds> imp = a;
    std::printf("  rep_convert %s %.17g %.17g %.17g %.17g %.17g %.17g | %zu %zu %zu | %d %d %d\\n", rep, double(as_d.in(seconds)), double(co.in(seconds)), double(co_in),
                double(rc.in(seconds)), double(back.in(minutes)), double(imp.in(seconds)), sizeof(co), sizeof(co_in), sizeof(rc),
                int(is_conversion_lossy(a, seconds)), int(will_conversion_overflow(a, seconds)), int(will_conversion_truncate(seconds(R(90)), minutes)));
}
""")

_s("rep_round", _inst("probe_rep_round", REPS), defs="""template <typename R>
void probe_rep_round(const char *rep) {
    using namespace au;
    const auto r = round_as<R>(seconds, milli(seconds)(2600.0));
    const auto f = floor_as<R>(seconds, milli(seconds)(2600.0));
    const auto c = ceil_as<R>(seconds, milli(seconds)(2600.0));
    const auto ri = round_in<R>(seconds, milli(seconds)(7400.0));
    std::printf("  rep_round %s %.17g %.17g %.17g %.17g | %zu %zu %zu %zu\\n", rep, double(r.in(seconds)), double(f.in(seconds)), double(c.in(seconds)), double(ri),
                sizeof(r), sizeof(f), sizeof(c), sizeof(ri));
}
""")

_s("rep_chrono_limits", _inst("probe_rep_chrono_limits", REPS), defs="""#include <chrono>
#include <limits>
template <typename R>
void probe_rep_chrono_limits(const char *rep) {
    using namespace au;
    const auto q = as_quantity(std::chrono::duration<R, std::milli>{R(25)});
    const std::chrono::duration<R, std::ratio<60>> d = as_chrono_duration(minutes(R(3)));
    using Q = Quantity<Seconds, R>;
    std::printf("  rep_chrono_limits %s %.17g [%s] %zu %.17g | %d %d %d\\n", rep, double(q.in(milli(seconds))), unit_label(decltype(q)::unit), sizeof(q), double(d.count()),
                int(std::numeric_limits<Q>::max().in(seconds) == std::numeric_limits<R>::max()), int(std::numeric_limits<Q>::lowest().in(seconds) == std::numeric_limits<R>::lowest()),
                int(std::numeric_limits<Q>::is_specialized));
}
""")

_s("rep_io", _inst("probe_rep_io", REPS), needs_io=True, defs="""template <typename R>
void probe_rep_io(const char *rep) {
    using namespace au;
    std::ostringstream o;
    o << seconds(R(65)) << '|' << make_quantity_point<Minutes>(R(3)) << '|' << (seconds(R(8)) / R(2)) << '|' << -milli(seconds)(R(5));
    std::printf("  rep_io %s %s\\n", rep, o.str().c_str());
}
""")


_s("prefixes", r"""
        std::printf("prefixes %d %d %lld %.17g %.17g [%s] [%s] [%s] [%s]\n", kilo(seconds)(2).in(seconds), int(milli(seconds)(3000.0).in(seconds)),
                    static_cast<long long>(kibi(minutes)(std::int64_t{1}).in(seconds)), micro(seconds)(2.5).in(nano(seconds)), giga(seconds)(1.0).in(mega(seconds)),
                    unit_label(kilo(seconds)), unit_label(kibi(minutes)), unit_label(nano(hours)), unit_label(mebi(seconds) / micro(minutes)));
""")

_s("pi_magnitudes", r"""
        constexpr auto pi_mag = Magnitude<Pi>{};
        constexpr auto half_turns = radians * pi_mag;
        std::printf("pi_magnitudes %.17g %.17g %.17g [%s] [%s] %d %d\n", get_value<double>(pi_mag), half_turns(2.0).in(radians), get_value<double>(pi_mag * pi_mag / mag<4>()),
                    unit_label(half_turns), mag_label(pi_mag / mag<2>()), int(is_rational(pi_mag)), int(is_integer(pi_mag)));
        std::printf("pi_magnitudes_f %.9g %.9g\n", double(get_value<float>(pi_mag)), double(half_turns(0.5f).in(radians)));
""")

_s("symbols_compound", r"""
        using symbols::s;
        using symbols::min;
        using symbols::h;
        using symbols::rad;
        constexpr auto v = 90.0 * rad / s;
        constexpr auto a = 6.0 * min / (2.0 * h);
        std::printf("symbols_compound %.17g %.17g [%s] [%s] %.17g\n", v.in(radians / seconds), a.in(minutes / hours), unit_label(decltype(v)::unit), unit_label(decltype(a)::unit),
                    (3.0 * s * s).in(squared(seconds)));
""")

_s("constants_api", r"""
        constexpr auto K = make_constant(kilo(seconds) / squared(minutes) * mag<3>());
        constexpr auto q = K * minutes(2.0);
        constexpr auto inv = 6.0 / K;
        std::printf("constants_api %.17g %.17g [%s] [%s] %d %.17g\n", q.in(kilo(seconds) / minutes), inv.in(squared(minutes) / kilo(seconds)), unit_label(K), unit_label(K * K),
                    K.as<int>(seconds / squared(minutes)).in(seconds / squared(minutes)), K.in<double>(kilo(seconds) / squared(minutes)));
""")

_s("root_magnitudes", r"""
        constexpr auto r2 = sqrt(mag<2>());
        constexpr auto c5 = cbrt(mag<5>());
        constexpr auto rpi = sqrt(Magnitude<Pi>{});
        constexpr auto u = seconds * r2;
        std::printf("root_magnitudes %.17g %.17g %.17g %.17g %.9g [%s] [%s] %d\n", get_value<double>(r2), get_value<double>(c5), get_value<double>(rpi), u(1.0).in(seconds),
                    double(get_value<float>(r2 * r2 * r2)), mag_label(r2), unit_label(u), int(is_rational(r2)));
        std::printf("root_magnitudes_q %.17g [%s] %.17g\n", sqrt(squared(seconds)(2.25)).in(seconds), unit_label(sqrt(kilo(seconds))), sqrt(kilo(seconds)(4.0)).in(sqrt(seconds)));
""")

_s("sfinae_traits", r"""
        using QS = Quantity<Seconds, int>;
        using QR = Quantity<Radians, int>;
        using QD = Quantity<Minutes, double>;
        using PS = QuantityPoint<Seconds, int>;
        std::printf("sfinae_traits lt %d %d %d | eq %d %d %d | add %d %d %d | sub %d %d %d | pts %d %d %d %d\n",
                    int(probe_can_lt<QS, QD>::value), int(probe_can_lt<QS, QR>::value), int(probe_can_lt<QS, int>::value),
                    int(probe_can_eq<QS, QD>::value), int(probe_can_eq<QS, QR>::value), int(probe_can_eq<QS, int>::value),
                    int(probe_can_add<QS, QD>::value), 2, int(probe_can_add<QS, int>::value),
                    int(probe_can_sub<QS, QD>::value), 2, int(probe_can_sub<QS, int>::value),
                    int(probe_can_add<PS, PS>::value), int(probe_can_sub<PS, PS>::value), int(probe_can_add<PS, QS>::value), int(probe_can_lt<PS, QS>::value));
""", defs="""template <typename...>
using probe_void_t = void;
#define PROBE_TRAIT(NAME, EXPR)                                                                     \\
    template <typename A, typename B, typename = void>                                                \\
    struct NAME : std::false_type {};                                                                  \\
    template <typename A, typename B>                                                                  \\
    struct NAME<A, B, probe_void_t<decltype(EXPR)>> : std::true_type {};
PROBE_TRAIT(probe_can_lt, std::declval<A>() < std::declval<B>())
PROBE_TRAIT(probe_can_eq, std::declval<A>() == std::declval<B>())
PROBE_TRAIT(probe_can_add, std::declval<A>() + std::declval<B>())
PROBE_TRAIT(probe_can_sub, std::declval<A>() - std::declval<B>())
#undef PROBE_TRAIT
#include <utility>
""")

_s("std_traits", r"""
        using Q = Quantity<Seconds, int>;
        using P = QuantityPoint<Seconds, double>;
        std::printf("std_traits hash %d %d %d | limits %d %d %d | common %d %d | triv %d %d %d %d\n", int(probe_hashable<Q>::value), int(probe_hashable<P>::value),
                    int(probe_hashable<Quantity<Minutes, double>>::value), int(std::numeric_limits<Q>::is_specialized), int(std::numeric_limits<P>::is_specialized),
                    int(std::numeric_limits<Q>::is_integer), int(probe_has_common<Q, Quantity<Minutes, double>>::value), int(probe_has_common<Q, int>::value),
                    int(std::is_trivially_copyable<Q>::value), int(std::is_standard_layout<Q>::value), int(std::is_trivially_destructible<P>::value),
                    int(std::is_nothrow_move_constructible<Q>::value));
""", defs="""#include <functional>
#include <limits>
template <typename...>
using probe_void2_t = void;
template <typename T, typename = void>
struct probe_hashable : std::false_type {};
template <typename T>
struct probe_hashable<T, probe_void2_t<decltype(std::hash<T>{}(std::declval<const T &>()))>> : std::true_type {};
template <typename A, typename B, typename = void>
struct probe_has_common : std::false_type {};
template <typename A, typename B>
struct probe_has_common<A, B, probe_void2_t<typename std::common_type<A, B>::type>> : std::true_type {};
""")

_s("rep_complex", r"""
        using C = std::complex<double>;
        using Ci = std::complex<int>;
        const auto a = seconds(C{3.0, -4.0});
        const auto ms = a.as(milli(seconds));
        const auto mins = minutes(C{1.0, 2.0}).as(seconds);
        const auto sum = a + seconds(C{0.5, 0.5});
        const auto scaled = a * 2.0;
        const auto i = seconds(Ci{2, -7}).as(milli(seconds));
        const auto back = rep_cast<C>(seconds(2.0));
        std::printf("rep_complex (%.17g,%.17g) (%.17g,%.17g) (%.17g,%.17g) (%.17g,%.17g) (%d,%d) (%.17g,%.17g) %d %zu\n", ms.in(milli(seconds)).real(), ms.in(milli(seconds)).imag(),
                    mins.in(seconds).real(), mins.in(seconds).imag(), sum.in(seconds).real(), sum.in(seconds).imag(), scaled.in(seconds).real(), scaled.in(seconds).imag(),
                    i.in(milli(seconds)).real(), i.in(milli(seconds)).imag(), back.in(seconds).real(), back.in(seconds).imag(), int(a == seconds(C{3.0, -4.0})), sizeof(a));
""", defs="#include <complex>\n")

_s("unit_member_odr", r"""
        // `::unit` is documented as a public static member variable of every Quantity and
        // QuantityPoint type: bound to a reference (odr-used), as generic code does
        const auto q = seconds(3);
        const auto p = make_quantity_point<Minutes>(2.5);
        const auto &qu = q.unit;
        const auto &pu = decltype(p)::unit;
        std::printf("unit_member_odr [%s] [%s] %d\n", unit_label_of_ref(qu), unit_label_of_ref(pu), int(static_cast<const void *>(&qu) != static_cast<const void *>(&pu)));
""", defs="template <typename U>\nconst char *unit_label_of_ref(const U &u) { return au::unit_label(u); }\n")

_s("rep_class_type", r"""
        // a rep that is an ordinary pre-C++20 value class: arithmetic and the six relational
        // operators, no operator<=>; same-unit, same-rep operations only
        using L = Quantity<Seconds, probe_rep::Fixed3>;
        using P = QuantityPoint<Seconds, probe_rep::Fixed3>;
        constexpr L a = seconds(probe_rep::Fixed3::from_thousandths(1500));
        constexpr L b = seconds(probe_rep::Fixed3::from_thousandths(2250));
        constexpr P pp = make_quantity_point<Seconds>(probe_rep::Fixed3::from_thousandths(100));
        constexpr P pq = make_quantity_point<Seconds>(probe_rep::Fixed3::from_thousandths(-250));
        constexpr bool less = (a < b);
        std::vector<L> v{b, a + b, a, b - a};
        std::sort(v.begin(), v.end());
        std::printf("rep_class_type %d %d %d %d %d %d | %lld %lld %lld %lld %lld | %lld %lld %lld %lld | %d %d %d %d %lld %d\n", int(less), int(a <= b), int(a > b), int(a >= b), int(a == b), int(a != b),
                    (a + b).data_in(seconds).thousandths(), (b - a).data_in(seconds).thousandths(), min(a, b).data_in(seconds).thousandths(), max(a, b).data_in(seconds).thousandths(),
                    clamp(a + b, a, b).data_in(seconds).thousandths(), v[0].data_in(seconds).thousandths(), v[1].data_in(seconds).thousandths(), v[2].data_in(seconds).thousandths(),
                    v[3].data_in(seconds).thousandths(), int(pp < pq), int(pp > pq), int(pp == pq), int(pp != pq), (pp - pq).data_in(seconds).thousandths(), int((pp + a) > pp));
""", defs="""#include <algorithm>
#include <vector>
namespace probe_rep {
class Fixed3 {
 public:
    constexpr Fixed3() : raw_(0) {}
    static constexpr Fixed3 from_thousandths(long long t) { return Fixed3(t); }
    constexpr long long thousandths() const { return raw_; }
    friend constexpr Fixed3 operator+(Fixed3 a, Fixed3 b) { return Fixed3(a.raw_ + b.raw_); }
    friend constexpr Fixed3 operator-(Fixed3 a, Fixed3 b) { return Fixed3(a.raw_ - b.raw_); }
    friend constexpr Fixed3 operator-(Fixed3 a) { return Fixed3(-a.raw_); }
    friend constexpr bool operator==(Fixed3 a, Fixed3 b) { return a.raw_ == b.raw_; }
    friend constexpr bool operator!=(Fixed3 a, Fixed3 b) { return a.raw_ != b.raw_; }
    friend constexpr bool operator<(Fixed3 a, Fixed3 b) { return a.raw_ < b.raw_; }
    friend constexpr bool operator<=(Fixed3 a, Fixed3 b) { return a.raw_ <= b.raw_; }
    friend constexpr bool operator>(Fixed3 a, Fixed3 b) { return a.raw_ > b.raw_; }
    friend constexpr bool operator>=(Fixed3 a, Fixed3 b) { return a.raw_ >= b.raw_; }

 private:
    constexpr explicit Fixed3(long long raw) : raw_(raw) {}
    long long raw_;
};
}  // namespace probe_rep
""")

_s("noexcept_of_operators", r"""
        // what the noexcept operator says about the library's operators (generic code branches on it)
        constexpr auto a = seconds(1);
        constexpr auto b = seconds(2);
        constexpr auto x = minutes(1.5);
        constexpr auto p = make_quantity_point<Seconds>(1);
        constexpr auto q = make_quantity_point<Seconds>(2);
        std::printf("noexcept_of_operators %d %d %d %d %d %d %d %d %d %d\n", int(noexcept(a == b)), int(noexcept(a < b)), int(noexcept(x != x)), int(noexcept(x >= x)), int(noexcept(p == q)),
                    int(noexcept(p > q)), int(noexcept(a + b)), int(noexcept(a.in(seconds))), int(noexcept(-a)), int(noexcept(p - q)));
""")

_s("mixed_ordering_values", r"""
        // C++20's library builds the < of pair / tuple on the elements' <=>; for elements of
        // DIFFERENT quantity types the library's <=> has to agree with its own <
        const auto a = std::make_tuple(seconds(std::uint32_t{5000000}));
        const auto b = std::make_tuple(milli(seconds)(std::uint64_t{1000000000}));
        const auto c = std::make_tuple(make_quantity_point<Seconds>(std::uint32_t{5000000}), 1);
        const auto d = std::make_tuple(make_quantity_point<Milli<Seconds>>(std::uint64_t{1000000000}), 1);
        std::printf("mixed_ordering_values %d %d %d %d | %d %d %d %d\n", int(a < b), int(b < a), int(std::get<0>(a) < std::get<0>(b)), int(a == b), int(c < d), int(d < c), int(std::get<0>(c) < std::get<0>(d)),
                    int(std::make_tuple(minutes(1), 2) < std::make_tuple(seconds(60), 3)));
""", defs="#include <tuple>\n#include <utility>\n")

_s("mixed_ordering_accept", r"""
        // the same, with element types whose comparison the library's < accepts: a narrow rep
        // against a finer unit of a wider rep; signed against unsigned
        const auto a = std::make_tuple(seconds(std::int16_t{7}));
        const auto b = std::make_tuple(milli(seconds)(6999));
        const auto c = std::make_tuple(seconds(-1));
        const auto d = std::make_tuple(seconds(1u));
        std::printf("mixed_ordering_accept %d %d %d %d\n", int(a < b), int(b < a), int(c < d), int(std::get<0>(c) < std::get<0>(d)));
""", defs="#include <tuple>\n#include <utility>\n")

_s("custom_magnitude_base", r"""
        // docs/reference/magnitude.md, "Custom bases": irrational bases of the user's own, one of
        // them below one
        constexpr auto ln2 = Magnitude<probe_mag::Ln2>{};
        constexpr auto phi = Magnitude<probe_mag::Phi>{};
        struct Nepers : decltype(Seconds{} * Magnitude<probe_mag::Ln2>{}) {};
        struct Goldens : decltype(Seconds{} * Magnitude<probe_mag::Phi>{}) {};
        std::printf("custom_magnitude_base %.17g %.17g %.17g %.17g %.9g %d\n", get_value<double>(ln2), get_value<double>(phi), make_quantity<Nepers>(2.0).in(seconds),
                    make_quantity<Goldens>(2.0).in(seconds), double(get_value<float>(ln2 * ln2)), int(representable_in<int>(phi)));
""", defs="""namespace probe_mag {
struct Ln2 {
    static constexpr long double value() { return 0.693147180559945309417232121458176568L; }
};
struct Phi {
    static constexpr long double value() { return 1.618033988749894848204586834365638118L; }
};
}  // namespace probe_mag
""")

_s("float_inexact", r"""
        // Inexact values are fine to print as long as the *sequence of operations* is fixed by the
        // library (IEEE arithmetic is deterministic; no -ffast-math, no FMA contraction on the
        // baseline x86-64 target): every configuration must print the same digits.
        const auto c = int_pow<3>(seconds(1.3));
        const auto d = int_pow<5>(seconds(0.3f));
        const auto e = int_pow<-2>(seconds(7.7));
        const auto f = int_pow<3>(seconds(2.54L));
        std::printf("float_inexact %.17g %.9g %.17g %.21Lg | %.17g %.17g %.17g | %.17g %.9g\n", c.in(cubed(seconds)), double(d.in(pow<5>(seconds))), e.in(pow<-2>(seconds)),
                    f.in(cubed(seconds)), (seconds(0.1) + seconds(0.2)).in(seconds), (minutes(0.1) * 3.0).in(seconds), (seconds(1.0) / 3.0).in(milli(seconds)),
                    sqrt(squared(seconds)(2.0)).in(seconds), double(hypot(seconds(3.0f), seconds(4.0f)).in(seconds)));
""")

_s("ordering_through_std", r"""
        // C++20's library builds the < of pair / tuple on the elements' <=>: the same C++14 program
        // reaches operator<=> there.  Unsigned reps with the smaller operand on the left.
        const auto p1 = make_quantity_point<Seconds>(100u);
        const auto p2 = make_quantity_point<Seconds>(400u);
        const auto q1 = seconds(std::uint8_t{3});
        const auto q2 = seconds(std::uint8_t{200});
        const auto d1 = make_quantity_point<Minutes>(1.5);
        const auto d2 = make_quantity_point<Seconds>(91.0);
        std::printf("ordering_through_std %d %d %d %d %d %d | %d %d %d\n", int(std::make_pair(p1, 1) < std::make_pair(p2, 0)), int(std::make_pair(p2, 0) < std::make_pair(p1, 1)),
                    int(std::make_tuple(q1, 'a') < std::make_tuple(q2, 'a')), int(std::make_tuple(q2, 'a') <= std::make_tuple(q1, 'z')),
                    int(std::max(p1, p2) == p2), int(std::min(q1, q2) == q1), int(std::make_pair(d1, 0) < std::make_pair(d1, 1)), int(p1 < p2), int(q2 > q1));
#if defined(__cpp_impl_three_way_comparison) && __cpp_impl_three_way_comparison >= 201907L
        std::printf("ordering_through_std_direct %d %d %d\n", int((p1 <=> p2) < 0), int((q1 <=> q2) < 0), int((d1 <=> d2) < 0));
#else
        std::printf("ordering_through_std_direct %d %d %d\n", int(p1 < p2), int(q1 < q2), int(d1 < d2));
#endif
""", defs="#include <algorithm>\n#include <tuple>\n#include <utility>\n")

_s("magnitude_api", r"""
        constexpr auto r3 = root<3>(mag<8>());
        constexpr auto p2 = pow<2>(mag<3>());
        constexpr auto ip = integer_part(mag<7>() / mag<2>());
        std::printf("magnitude_api %d %d %d [%s] [%s] [%s] %d %d %d %d\n", get_value<int>(r3), get_value<int>(p2), get_value<int>(ip), mag_label(numerator(mag<6>() / mag<35>())),
                    mag_label(denominator(mag<6>() / mag<35>())), mag_label(pow<-1>(mag<12>())), int(representable_in<int>(mag<1000000>())), int(representable_in<std::int8_t>(mag<1000>())),
                    int(representable_in<double>(mag<1>() / mag<3>())), int(representable_in<int>(mag<1>() / mag<3>())));
""")

_s("unit_api", r"""
        constexpr auto cu = make_common(seconds, minutes);
        constexpr auto cpu = make_common_point(QuantityPointMaker<Seconds>{}, QuantityPointMaker<Minutes>{});
        std::printf("unit_api %d %d %d %d [%s] [%s] [%s] %d %d %.17g\n", int(is_unit(Seconds{})), int(is_unit(3)), int(fits_in_unit_slot(seconds)), int(fits_in_unit_slot(mag<3>())),
                    unit_label(symbol_for(minutes * seconds)), unit_label(associated_unit_for_points(Seconds{})), unit_label(associated_unit(cu)),
                    cu(5).in(seconds), int(are_units_point_equivalent(Seconds{}, Seconds{} * mag<1>())), cpu(2.5).in(Seconds{}));
""")

_s("trig_two_args", r"""
        // cbrt is not correctly rounded in libm, and an optimising compiler folds it exactly: six digits
        std::printf("trig_two_args %.17g %.17g %.6g %.6g\n", arctan2(seconds(0.0), seconds(1.0)).in(radians), arctan2(minutes(0.0), seconds(-5.0)).in(radians) > 3.0 ? 1.0 : 0.0,
                    cbrt(cubed(seconds)(27.0)).in(seconds), cbrt(cubed(minutes)(8.0)).in(minutes));
""")

def names():
    return sorted(SNIPPETS)


def sample(rng):
    ns = names()
    r = rng.random()
    if r < 0.15:
        k = 0
    elif r < 0.25:
        k = len(ns)
    else:
        k = rng.choice((2, 3, 4, 6, 8, 12))
    return sorted(rng.sample(ns, min(k, len(ns))))


def chosen(probe_cfg):
    return [s for s in (probe_cfg.get("api") or []) if s in SNIPPETS]


def definitions(probe_cfg, io):
    out = []
    seen = set()
    for s in chosen(probe_cfg):
        if SNIPPETS[s].get("needs_io") and not io:
            continue  # its definitions may need <sstream>, which a noio probe does not include
        d = SNIPPETS[s].get("defs")
        if d and d not in seen:
            seen.add(d)
            out.append(d)
    return "".join(out)


def calls(probe_cfg, io):
    out = []
    for s in chosen(probe_cfg):
        sn = SNIPPETS[s]
        if sn.get("needs_io") and not io:
            continue
        out.append("    {\n" + sn["body"] + "\n    }")
    return "\n".join(out)
