"""Evaluation of one case (= one plan, possibly with faults) against the C20 oracles.

A *case* is a plan.  If it carries faults (or a faulty git outcome) it is judged relative to its
fault-free twin, which is always executed first: the twin supplies the footprint the abstract
faults are resolved against and the reference output.
"""
import copy
import hashlib
import re

from . import env as _env
from . import oracle as _oracle
from . import plan as _plan

PROPERTY = "C20"


def twin_of(case):
    t = copy.deepcopy(case)
    t["faults"] = []
    if "base_git" in t:
        t["env"]["git"] = t.pop("base_git")
    if "base_hashseed" in t:
        t["hashseed"] = t.pop("base_hashseed")
    for k, v in (t.pop("base_env", None) or {}).items():
        if v is None:
            t["env"].pop(k, None)
        else:
            t["env"][k] = v
    t.pop("variant", None)
    return t


def is_faulty(case):
    return bool(case.get("faults")) or "base_git" in case or "base_env" in case or "base_hashseed" in case or (case["env"].get("git") in _plan.GIT_HANDLED + _plan.GIT_UNHANDLED)


def make_faulty(plan, variant):
    p = _plan.apply_variant(plan, variant)
    if p["env"].get("git") != plan["env"].get("git"):
        p["base_git"] = plan["env"]["git"]
    other = {k: plan["env"].get(k) for k in (variant.get("env") or {}) if k != "git" and plan["env"].get(k) != p["env"].get(k)}
    if other:
        p["base_env"] = other  # environment knobs this variant changed, with their twin values
    return p


def _norm_diag(text):
    """First error line with paths, numbers and template arguments blurred: groups violations by
    root cause without depending on line numbers."""
    lines = [l for l in (text or "").splitlines() if "error" in l] or (text or "").splitlines()
    if not lines:
        return ""
    l = lines[0]
    l = re.sub(r"^\S*/au/code/au/(units|constants)/[\w.+-]+\.hh:\d+:\d+:", r"au/\1/*.hh:", l)
    l = re.sub(r"^\S*?([\w.+-]+\.(?:hh|cc)):\d+:\d+:", r"\1:", l)
    l = re.sub(r"<scratch>/\S*/", "", l)
    l = re.sub(r"\u2018[^\u2019]*\u2019|'[^']*'", "'..'", l)
    l = re.sub(r"\(aka '..'\)", "", l)
    l = re.sub(r"\d+", "N", l)
    return l[:160]


def signature(vclass, detail):
    tc = detail.get("toolchain", "")
    if vclass in ("NOT_SELF_CONTAINED", "NOT_MULTI_TU_SAFE"):
        return "%s|%s" % (vclass, _norm_diag(detail["single"]["diag"]))
    if vclass in ("MULTI_REJECTS",):
        return "%s|%s" % (vclass, _norm_diag(detail["multi"]["diag"]))
    if vclass == "TOOLCHAIN_DEPENDENT":
        b = detail.get("b", {})
        a = detail.get("a_ref", {})
        comp_a = tc.split("/")[0]
        comp_b = detail.get("toolchain_b", "").split("/")[0]
        if comp_a == comp_b:  # same compiler: the language standard (or optimisation level) is what differs
            comp_a, comp_b = "/".join(tc.split("/")[1:]), "/".join(detail.get("toolchain_b", "").split("/")[1:])
        strip = lambda t: re.sub(r"^[\w.+-]+\.(?:hh|cc):", "", _norm_diag(t))
        if not b.get("ok", True):
            return "%s|accepts=%s|rejects=%s|%s" % (vclass, comp_a, comp_b, strip(b.get("diag", "")))
        if not a.get("ok", True):
            return "%s|accepts=%s|rejects=%s|%s" % (vclass, comp_b, comp_a, strip(a.get("diag", "")))
        first = (str((detail.get("diff") or {}).get("a", "")).strip().split() or ["?"])[0]
        return "%s|output differs at: %s" % (vclass, re.sub(r"\d+", "N", first))
    if vclass == "RESULT_MISMATCH":
        d = detail.get("diff") or {}
        first = (str(d.get("a", "")).strip().split() or ["?"])[0]
        return "%s|output differs at: %s" % (vclass, re.sub(r"\d+", "N", first))
    if vclass == "HEADER_NOT_STANDALONE":
        return "%s|%s|%s" % (vclass, detail.get("header"), _norm_diag((detail.get("alone") or {}).get("diag", "")))
    if vclass == "FWD_MISMATCH":
        return "%s|%s" % (vclass, detail.get("expected_line"))
    if vclass in ("GEN_FAIL", "GEN_HANG", "HANG_UNDER_FAULT"):
        return "%s|%s|%s" % (vclass, detail.get("exc"), re.sub(r"\d+", "N", (detail.get("tb_tail") or "")[-100:]))
    if vclass == "ENVIRONMENT_CHANGED_OUTPUT":
        return "%s|%s|%s" % (vclass, ",".join(sorted(detail.get("env_changed", []))), detail.get("oracle_class"))
    if vclass in ("SILENT_FAULT", "HANDLED_FAULT_CHANGED_OUTPUT", "NONDETERMINISTIC_OUTPUT"):
        dl = detail.get("delivered", [])
        if vclass == "SILENT_FAULT":
            # group by the faults the tool is *not* expected to absorb: short writes that happened
            # to be delivered in the same run are not part of the root cause
            dl = [f for f in dl if not (f.get("op") == "write" and f.get("kind") == "short")]
        kinds = sorted({"%s:%s" % (f.get("op"), f.get("kind") or f.get("errno") or "") for f in dl})
        return "%s|%s|%s" % (vclass, ",".join(kinds), detail.get("oracle_class"))
    return vclass


def delivered_unhandled(res, mode):
    out = []
    for d in res["delivered"]:
        if d["op"] == "git":
            out.append(d)
        elif not _env.fault_is_handled(d, mode):
            out.append(d)
    return out


class Context:
    def __init__(self, tree, pool, builder, step_budget=_env.DEFAULT_STEP_BUDGET, event_cap=_env.DEFAULT_EVENT_CAP):
        self.tree = tree
        self.pool = pool
        self.builder = builder
        self.step_budget = step_budget
        self.event_cap = event_cap


def _sim_summary(res):
    return {
        "status": res["status"],
        "hang": res["hang"],
        "exc": res["exc"],
        "tb_tail": res["tb_tail"],
        "steps": res["steps"],
        "n_events": res["n_events"],
        "out_len": res["out_len"],
        "out_sha": res["out_sha"],
        "delivered": res["delivered"],
        "resolved_faults": res["resolved_faults"],
        "trace_hash": res["trace_hash"],
        "probes": res["probes"],
        "repo_writes": res["repo_writes"],
        "clock_reads": res["clock_reads"],
        "git_calls": res["git_calls"],
        "raw_writes": res["raw_writes"],
        "n_opened": len(res["opened"]),
        "listed": res["listed"],
        "lines_hit": res.get("lines_hit", []),
    }


def locale_refusal(ctx, plan, res):
    """The run ended in a Unicode error, the simulated locale is not UTF-8, and the inputs do
    contain text outside ASCII (a --version-id, the user's own header, a library header): the
    locale cannot represent the text and the tool says so loudly.  Nothing is delivered, so there
    is nothing for C20 to object to - and nothing to compare either."""
    if (plan["env"].get("encoding") or "utf-8") == "utf-8":
        return False
    if res.get("exc") not in ("UnicodeDecodeError", "UnicodeEncodeError"):
        return False
    sel = plan.get("selection") or {}
    vid = sel.get("version_id")
    if vid is not None and not str(vid).isascii():
        return True
    if (sel.get("user_main") or {}).get("non_ascii"):
        return True
    if not hasattr(ctx, "_non_ascii_headers"):
        ctx._non_ascii_headers = bool(ctx.tree.non_ascii_headers())
    return ctx._non_ascii_headers


def evaluate_twin(ctx, plan, want_events=False, build=True, extra_toolchain=True):
    """Fault-free execution + build/compare oracle.  Returns (record, twin_res, twin_data)."""
    res, data = ctx.pool.run(plan, want_events=want_events, step_budget=ctx.step_budget, event_cap=ctx.event_cap)
    rec = {"run": plan.get("run"), "kind": "fault-free", "sim": _sim_summary(res), "violations": [], "inconclusive": None, "oracle": None}
    if want_events:
        rec["events"] = res.get("events")
    if res["hang"]:
        d = {"exc": res["exc"], "tb_tail": "", "steps": res["steps"], "step_budget": ctx.step_budget}
        rec["violations"].append({"class": "GEN_HANG", "sig": signature("GEN_HANG", d), "detail": d})
        return rec, res, data
    if res["status"] != 0:
        if locale_refusal(ctx, plan, res):
            rec["outcome"] = "locale_cannot_represent_the_text"
            return rec, res, data
        d = {"exc": res["exc"], "tb_tail": res["tb_tail"], "status": res["status"], "stderr_tail": res["stderr_tail"][-300:]}
        rec["violations"].append({"class": "GEN_FAIL", "sig": signature("GEN_FAIL", d), "detail": d})
        return rec, res, data
    if build:
        v, detail = _oracle.judge_twin(ctx.builder, ctx.tree, plan, data, extra_toolchain=extra_toolchain)
        rec["oracle"] = {"class": v, "detail": detail}
        if v == "HARNESS":
            rec["harness_error"] = detail
        elif v == "BOTH_REJECT":
            rec["inconclusive"] = "both packagings reject the probe under the same toolchain"
        elif v:
            rec["violations"].append({"class": v, "sig": signature(v, detail), "detail": detail})
    return rec, res, data


def evaluate_faulty(ctx, fplan, twin_res, twin_data, want_events=False):
    """One faulty re-execution, judged against its fault-free twin."""
    mode = fplan["env"].get("stdout_mode", "block")
    res, data = ctx.pool.run(fplan, twin=_env.footprint(twin_res), want_events=want_events, step_budget=ctx.step_budget, event_cap=ctx.event_cap)
    rec = {"run": fplan.get("run"), "variant": fplan.get("variant"), "kind": "faulty", "sim": _sim_summary(res), "violations": [], "inconclusive": None, "escalated": False}
    if want_events:
        rec["events"] = res.get("events")
    unh = delivered_unhandled(res, mode)
    rec["delivered_unhandled"] = len(unh)
    rec["delivered_handled"] = len(res["delivered"]) - len(unh)
    if res["hang"]:
        d = {"exc": res["exc"], "tb_tail": "", "steps": res["steps"], "delivered": res["delivered"]}
        rec["violations"].append({"class": "HANG_UNDER_FAULT", "sig": signature("HANG_UNDER_FAULT", d), "detail": d})
        return rec
    if res["status"] != 0:
        if unh:
            rec["outcome"] = "loud_failure"
            return rec
        if locale_refusal(ctx, fplan, res):
            rec["outcome"] = "locale_cannot_represent_the_text"
            return rec
        d = {"exc": res["exc"], "tb_tail": res["tb_tail"], "status": res["status"], "delivered": res["delivered"], "stderr_tail": res["stderr_tail"][-300:]}
        rec["violations"].append({"class": "GEN_FAIL", "sig": signature("GEN_FAIL", d), "detail": d})
        return rec
    # status 0: the build will use these bytes
    if data == twin_data or _oracle.code_lines(data) == _oracle.code_lines(twin_data):
        rec["outcome"] = "same_code_as_twin"
        return rec
    rec["escalated"] = True
    v, detail = _oracle.judge_twin(ctx.builder, ctx.tree, fplan, data, extra_toolchain=False)
    if v == "HARNESS":
        rec["harness_error"] = detail
        return rec
    if v in ("NOT_SELF_CONTAINED", "RESULT_MISMATCH", "NOT_MULTI_TU_SAFE"):
        if unh:
            c = "SILENT_FAULT"
        elif res["delivered"]:
            c = "HANDLED_FAULT_CHANGED_OUTPUT"
        elif fplan.get("base_env") or fplan.get("base_git") or "base_hashseed" in fplan:
            c = "ENVIRONMENT_CHANGED_OUTPUT"  # a benign environment difference, yet the header broke
        else:
            c = "NONDETERMINISTIC_OUTPUT"
        d = {"delivered": res["delivered"], "oracle_class": v, "oracle": detail, "out_len": res["out_len"], "twin_out_len": twin_res["out_len"],
             "env_changed": sorted(list((fplan.get("base_env") or {}).keys()) + (["git"] if fplan.get("base_git") else []) + (["PYTHONHASHSEED"] if "base_hashseed" in fplan else []))}
        rec["violations"].append({"class": c, "sig": signature(c, d), "detail": d})
    else:
        rec["outcome"] = "different_bytes_but_valid_header" if v is None else "escalated_" + str(v)
    return rec


_DEFAULT_PLAN = {"seed": 0, "run": "default-header", "hashseed": 0, "selection": {"units": [], "constants": [], "io": True, "main_files": [], "version_id": "edge", "opt_order": ["units", "constants", "noio", "version"]},
                 "env": {"listdir": {}, "extra_entries": {}, "clock": ["2026-01-01T00:00:00"], "git": "ok:edge", "stdout_mode": "block", "stdout_bufsize": 4096}, "faults": [], "toolchain": {"a": ["g++", "c++14"]}, "probe": {}}


def default_header(ctx, io=True):
    """The single-file package for the default selection, with or without I/O support (generated
    once per context)."""
    attr = "_default_header" if io else "_default_header_noio"
    if not hasattr(ctx, attr):
        plan = copy.deepcopy(_DEFAULT_PLAN)
        plan["selection"]["io"] = bool(io)
        res, data = ctx.pool.run(plan)
        setattr(ctx, attr, data if res["status"] == 0 and not res["hang"] else None)
    return getattr(ctx, attr)


def evaluate_session(ctx, splan, want_events=False):
    """A session: the invocations run back to back on one simulated machine (shared overlay of
    whatever the tool wrote).  Each invocation is compared with a *fresh* run of the same
    invocation (empty overlay): same success, and - when the bytes differ - still a header that
    passes the build/compare oracle."""
    invs = splan["session"]
    outs = ctx.pool.run_session(invs, hashseed=splan.get("hashseed", 0), want_events=want_events, step_budget=ctx.step_budget, event_cap=ctx.event_cap)
    rec = {"run": splan.get("run"), "kind": "session", "violations": [], "inconclusive": None, "steps": [], "trace_hashes": [], "harness_error": None}
    for k, (inv, (res, data)) in enumerate(zip(invs, outs)):
        rec["trace_hashes"].append(res["trace_hash"])
        frec, fres, fdata = evaluate_twin(ctx, dict(inv, faults=[]), build=False)
        rec["trace_hashes"].append(fres["trace_hash"])
        step = {"k": k, "status": res["status"], "fresh_status": fres["status"], "out_len": res["out_len"], "fresh_out_len": fres["out_len"], "overlay_files": res.get("overlay_files"), "probes": res["probes"], "steps": res["steps"]}
        if want_events:
            step["events"] = res.get("events")
        rec["steps"].append(step)
        if frec["violations"]:
            # the fresh run itself does not complete: not a question of history
            step["outcome"] = "fresh run fails too"
            continue
        d = {"invocation": k, "of": len(invs), "status": res["status"], "exc": res["exc"], "tb_tail": res["tb_tail"], "overlay_files": res.get("overlay_files"), "selection": inv["selection"]}
        if inv.get("faults") and not res["hang"] and res["status"] != 0 and delivered_unhandled(res, inv["env"].get("stdout_mode", "block")):
            # this invocation was crashed on purpose; what matters is what the *next* ones make
            # of whatever it left behind
            step["outcome"] = "crashed as planned (status %s)" % res["status"]
            continue
        if res["hang"] or res["status"] != 0:
            d["what"] = "hang" if res["hang"] else "non-zero status"
            rec["violations"].append({"class": "HISTORY_DEPENDENT", "sig": "HISTORY_DEPENDENT|%s|%s" % (d["what"], res["exc"]), "detail": d})
            break
        if data == fdata or _oracle.code_lines(data) == _oracle.code_lines(fdata):
            step["outcome"] = "same code as a fresh run"
            continue
        v, detail = _oracle.judge_twin(ctx.builder, ctx.tree, inv, data, extra_toolchain=False)
        step["escalated"] = v
        if v == "HARNESS":
            rec["harness_error"] = detail
            break
        if v in ("NOT_SELF_CONTAINED", "RESULT_MISMATCH", "NOT_MULTI_TU_SAFE"):
            # would a fresh run have passed?  (otherwise it is an ordinary violation, found elsewhere)
            fv, _ = _oracle.judge_twin(ctx.builder, ctx.tree, inv, fdata, extra_toolchain=False)
            if fv is None:
                d.update({"what": "header differs from a fresh run's and fails the oracle", "oracle_class": v, "oracle": detail, "out_len": res["out_len"], "fresh_out_len": fres["out_len"]})
                rec["violations"].append({"class": "HISTORY_DEPENDENT", "sig": "HISTORY_DEPENDENT|%s" % v, "detail": d})
                break
        step["outcome"] = "differs from a fresh run, still valid" if v is None else "escalated_%s" % v
    return rec


def evaluate_concurrent(ctx, cplan, want_events=False):
    """Two overlapping invocations (see env.run_interleaved).  Each must produce what it produces
    when it has the machine to itself: same success, and - if the bytes differ - still a header
    that passes the build/compare oracle for *its own* selection."""
    a, b = cplan["concurrent"]
    outs = ctx.pool.run_interleaved(a, b, cplan["preempt_permille"], hashseed=cplan.get("hashseed", 0), want_events=want_events, step_budget=ctx.step_budget, event_cap=ctx.event_cap)
    rec = {"run": cplan.get("run"), "kind": "concurrent", "violations": [], "inconclusive": None, "steps": [], "trace_hashes": [], "harness_error": None}
    for who, inv, (res, data) in zip("AB", (a, b), outs):
        rec["trace_hashes"].append(res["trace_hash"])
        frec, fres, fdata = evaluate_twin(ctx, inv, build=False)
        rec["trace_hashes"].append(fres["trace_hash"])
        step = {"who": who, "status": res["status"], "solo_status": fres["status"], "out_len": res["out_len"], "solo_out_len": fres["out_len"], "overlay_files": res.get("overlay_files"), "preempted_at": res.get("preempted_at"), "of": res.get("preempted_of"), "probes": res["probes"]}
        if want_events:
            step["events"] = res.get("events")
        rec["steps"].append(step)
        if frec["violations"]:
            step["outcome"] = "solo run fails too"
            continue
        d = {"who": who, "status": res["status"], "exc": res["exc"], "tb_tail": res["tb_tail"], "overlay_files": res.get("overlay_files"), "selection": inv["selection"], "preempt_permille": cplan["preempt_permille"], "preempted_at": outs[0][0].get("preempted_at"), "of": outs[0][0].get("preempted_of")}
        if res["hang"] or res["status"] != 0:
            d["what"] = "hang" if res["hang"] else "non-zero status"
            rec["violations"].append({"class": "CONCURRENCY_DEPENDENT", "sig": "CONCURRENCY_DEPENDENT|%s|%s|%s" % (who, d["what"], res["exc"]), "detail": d})
            continue
        if data == fdata or _oracle.code_lines(data) == _oracle.code_lines(fdata):
            step["outcome"] = "same code as alone"
            continue
        v, detail = _oracle.judge_twin(ctx.builder, ctx.tree, inv, data, extra_toolchain=False)
        step["escalated"] = v
        if v == "HARNESS":
            rec["harness_error"] = detail
            break
        if v in ("NOT_SELF_CONTAINED", "RESULT_MISMATCH", "NOT_MULTI_TU_SAFE"):
            fv, _ = _oracle.judge_twin(ctx.builder, ctx.tree, inv, fdata, extra_toolchain=False)
            if fv is None:
                d.update({"what": "header differs from the one produced alone and fails the oracle", "oracle_class": v, "oracle": detail, "out_len": res["out_len"], "solo_out_len": fres["out_len"]})
                rec["violations"].append({"class": "CONCURRENCY_DEPENDENT", "sig": "CONCURRENCY_DEPENDENT|%s|%s" % (who, v), "detail": d})
                continue
        step["outcome"] = "differs from the solo run, still valid" if v is None else "escalated_%s" % v
    return rec


def evaluate_case(ctx, case, want_events=False):
    """Evaluate an arbitrary case (used by replay and by the minimiser).  Returns a dict with
    `violations` (list of {class, sig, detail}) and the trace hashes of the executions involved."""
    if "edge_program" in case:
        from . import edge as _edge

        hdr = default_header(ctx, io=case["edge_program"] not in _edge.NOIO_PROGRAMS)
        viol = []
        if hdr is None:
            return {"twin": {"events": None}, "faulty": None, "violations": [], "trace_hashes": [], "harness_error": None, "inconclusive": True}
        v, detail = _edge.judge(ctx.builder, case["edge_program"], hdr, _plan.all_toolchains())
        if v and v != "HARNESS":
            viol.append({"class": v, "sig": "%s|edge program %s|%s" % (v, case["edge_program"], detail.get("what")), "detail": detail})
        return {"twin": {"events": None}, "faulty": None, "violations": viol, "trace_hashes": [], "harness_error": detail if v == "HARNESS" else None, "edge_table": detail.get("table")}
    if "fwd_unit" in case:
        v, detail = _oracle.judge_fwd_unit(ctx.builder, ctx.tree, case["fwd_unit"], tuple(case["toolchain"]["a"]))
        viol = []
        if v == "FWD_MISMATCH":
            viol.append({"class": v, "sig": "FWD_MISMATCH|au/units/%s_fwd.hh|%s" % (case["fwd_unit"], _norm_diag((detail.get("with_requirement") or {}).get("diag", ""))), "detail": detail})
        return {"twin": {"events": None}, "faulty": None, "violations": viol, "trace_hashes": [], "harness_error": detail if v == "HARNESS" else None, "inconclusive": v == "BOTH_REJECT"}
    if "header_alone" in case:
        v, detail = _oracle.judge_header_alone(ctx.builder, case["header_alone"], tuple(case["toolchain"]["a"]))
        viol = []
        if v == "HEADER_NOT_STANDALONE":
            viol.append({"class": v, "sig": signature(v, detail), "detail": detail})
        return {"twin": {"events": None}, "faulty": None, "violations": viol, "trace_hashes": [], "harness_error": detail if v == "HARNESS" else None, "inconclusive": v == "BOTH_REJECT"}
    if "concurrent" in case:
        crec = evaluate_concurrent(ctx, case, want_events=want_events)
        return {"twin": {"events": None}, "faulty": None, "session": crec, "violations": list(crec["violations"]), "trace_hashes": crec["trace_hashes"], "harness_error": crec.get("harness_error")}
    if "session" in case:
        srec = evaluate_session(ctx, case, want_events=want_events)
        return {"twin": {"events": None}, "faulty": None, "session": srec, "violations": list(srec["violations"]), "trace_hashes": srec["trace_hashes"], "harness_error": srec.get("harness_error")}
    twin_plan = twin_of(case)
    faulty = is_faulty(case)
    # when the case is about a fault, the twin's own build verdict is not what is being asked
    trec, tres, tdata = evaluate_twin(ctx, twin_plan, want_events=want_events, build=not faulty)
    out = {"twin": trec, "faulty": None, "violations": [], "trace_hashes": [tres["trace_hash"]]}
    if not faulty:
        out["violations"] = list(trec["violations"])
        out["harness_error"] = trec.get("harness_error")
        return out
    if trec["violations"] or trec["inconclusive"]:
        # the twin itself does not complete: nothing to compare a faulty run with
        out["violations"] = list(trec["violations"])
        return out
    frec = evaluate_faulty(ctx, case, tres, tdata, want_events=want_events)
    out["faulty"] = frec
    out["violations"] = list(frec["violations"])
    out["trace_hashes"].append(frec["sim"]["trace_hash"])
    out["harness_error"] = frec.get("harness_error")
    return out


def case_fingerprint(case):
    return hashlib.sha256(repr(sorted_json(case)).encode()).hexdigest()[:12]


def sorted_json(x):
    import json

    return json.dumps(x, sort_keys=True)
