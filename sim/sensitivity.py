#!/usr/bin/python3
"""Sensitivity runner: apply each patch of a directory to a scratch worktree of the repository
(outside /repo and /verif), run the C20 check against that copy, record what it reported, and
remove the worktree.  Nothing is ever applied to /repo itself.

  python3 sim/sensitivity.py [--tier quick] [--dir mutants] [name ...]
"""
import argparse
import json
import os
import re
import shutil
import subprocess
import sys
import tempfile
import time

VERIF = os.path.dirname(os.path.dirname(os.path.abspath(__file__)))
REPO = os.environ.get("VERIF_REPO", "/repo")


def run_one(patch, tier, seed, plans):
    base = tempfile.mkdtemp(prefix="au-verif-mut-", dir=os.environ.get("TMPDIR") or "/tmp")
    wt = os.path.join(base, "wt")
    out = os.path.join(base, "out")
    os.makedirs(out)
    t0 = time.time()
    try:
        subprocess.check_call(["git", "-C", REPO, "worktree", "add", "-q", "--detach", wt, "HEAD"])
        subprocess.check_call(["git", "-C", wt, "apply", patch])
        env = dict(os.environ, VERIF_REPO=wt, VERIF_OUT=out, VERIF_SEED=str(seed))
        if plans:
            env["VERIF_PLANS"] = str(plans)
        p = subprocess.run([sys.executable, "-B", os.path.join(VERIF, "sim", "run.py"), "c20", "--tier", tier], cwd=VERIF, env=env, stdout=subprocess.PIPE, stderr=subprocess.STDOUT)
        text = p.stdout.decode("utf-8", "replace")
        classes = re.findall(r"^\s+class=(\w+) executions=(\d+) sig=(.*)$", text, re.M)
        minim = []
        for rp in re.findall(r"^VIOLATION property=C20 replay=(\S+)", text, re.M):
            try:
                with open(rp) as f:
                    d = json.load(f)
                c = d["case"]
                if "session" in c:
                    minim.append({"class": d["class"], "session": [{"selection": {k: inv["selection"].get(k) for k in ("units", "constants", "io")}, "faults": inv.get("faults"), "touched": inv["env"].get("touched")} for inv in c["session"]], "minimisation_evals": d["minimisation"]["evaluations"]})
                    continue
                if "concurrent" in c:
                    minim.append({"class": d["class"], "concurrent": [{k: inv["selection"].get(k) for k in ("units", "constants", "io")} for inv in c["concurrent"]], "preempt_permille": c["preempt_permille"], "minimisation_evals": d["minimisation"]["evaluations"]})
                    continue
                if "edge_program" in c:
                    minim.append({"class": d["class"], "edge_program": c["edge_program"], "table": (d.get("evidence") or {}).get("table")})
                    continue
                if "fwd_unit" in c:
                    minim.append({"class": d["class"], "fwd_unit": c["fwd_unit"], "toolchain": c["toolchain"]})
                    continue
                if "header_alone" in c:
                    minim.append({"class": d["class"], "header": c["header_alone"], "toolchain": c["toolchain"]})
                    continue
                minim.append({"class": d["class"], "selection": {k: c["selection"].get(k) for k in ("units", "constants", "io", "main_files")}, "faults": c.get("faults"), "git": c["env"].get("git"), "listdir": c["env"].get("listdir"), "toolchain": c["toolchain"], "minimisation_evals": d["minimisation"]["evaluations"]})
            except Exception as e:
                minim.append({"error": repr(e)})
        return {"rc": p.returncode, "classes": [{"class": c, "executions": int(n), "sig": s[:200]} for c, n, s in classes], "minimised": minim, "wall_s": round(time.time() - t0, 1), "tail": text.splitlines()[-6:]}
    finally:
        subprocess.call(["git", "-C", REPO, "worktree", "remove", "--force", wt], stdout=subprocess.DEVNULL, stderr=subprocess.DEVNULL)
        shutil.rmtree(base, ignore_errors=True)
        subprocess.call(["git", "-C", REPO, "worktree", "prune"])


def main():
    ap = argparse.ArgumentParser()
    ap.add_argument("--tier", default="quick")
    ap.add_argument("--dir", default=os.path.join(VERIF, "mutants"))
    ap.add_argument("--plans", type=int, default=0)
    ap.add_argument("--out", default=None)
    ap.add_argument("names", nargs="*")
    a = ap.parse_args()
    seed = int(os.environ.get("VERIF_SEED", "20260926"))
    expect = {}
    ep = os.path.join(a.dir, "expect.json")
    if os.path.exists(ep):
        expect = json.load(open(ep))
    patches = sorted(f for f in os.listdir(a.dir) if f.endswith(".diff"))
    if a.names:
        patches = [f for f in patches if any(n in f for n in a.names)]
    results = {}
    for f in patches:
        name = f[:-5]
        r = run_one(os.path.join(a.dir, f), a.tier, seed, a.plans)
        exp = expect.get(name, {}).get("expect")
        got = sorted({c["class"] for c in r["classes"]})
        if exp is None:
            verdict = "?"
        elif exp == ["none"]:
            verdict = "ok (quiet)" if r["rc"] == 0 else "FALSE ALARM" if r["rc"] == 1 else "SIM-ERROR"
        elif exp == ["any"]:
            verdict = "ok (caught)" if r["rc"] == 1 else "MISSED"
        else:
            verdict = "ok (caught)" if r["rc"] == 1 and set(got) & set(exp) else ("ok (quiet, latent)" if r["rc"] == 0 and "none-on-this-tree" in exp else "MISSED" if r["rc"] == 0 else "caught-as-other" if r["rc"] == 1 else "SIM-ERROR")
        r["expected"] = exp
        r["verdict"] = verdict
        results[name] = r
        print("%-45s rc=%d %-18s %s  (%.0fs)" % (name, r["rc"], verdict, ",".join(got), r["wall_s"]), flush=True)
    outp = a.out or os.path.join(a.dir, "results.json")
    with open(outp, "w") as f:
        json.dump(results, f, indent=1, sort_keys=True)


if __name__ == "__main__":
    main()
