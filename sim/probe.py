"""Probe programs: the consumer of the generated package.

For a selection S the probe is two translation units that are linked together.  The same body is
compiled twice: once against the generated single-file header *alone* (`#include "au.hh"`, only the
directory holding that one file on the include path) and once against the multi-header tree
(`-I <repo>/au/code`, one include per selected header).  Only values on which every conforming
compiler must agree are printed (integers, labels, exactly representable doubles).

Everything is generated from the tree inventory; nothing is hand-listed per unit.
"""
import random

from . import apisurface
from . import addedunit, usermain


FULL_PROBE_LIMIT = 12


def probed_units(tree, sel):
    """Units whose API the probe exercises: the --units selection plus any unit header given as
    an extra main file (which the package must contain just the same)."""
    units = list(tree.units) if sel.get("units") == "ALL" else list(sel.get("units") or [])
    for m in sel.get("main_files") or []:
        if m.startswith("au/units/") and m.endswith(".hh") and not m.endswith("_fwd.hh"):
            u = m[len("au/units/"):-3]
            if u in tree.units and u not in units:
                units.append(u)
    return units


def probed_constants(tree, sel):
    consts = list(tree.constants) if sel.get("constants") == "ALL" else [c.lower() for c in (sel.get("constants") or [])]
    for m in sel.get("main_files") or []:
        if m.startswith("au/constants/") and m.endswith(".hh"):
            c = m[len("au/constants/"):-3]
            if c in tree.constants and c not in consts:
                consts.append(c)
    return consts


def includes_multi(tree, sel, order_seed, tu):
    """Include lines for the multi-header variant.  The order is seeded: a public header must
    compile no matter what was included before it (and in particular as the very first include)."""
    units = tree.units if sel.get("units") == "ALL" else list(sel.get("units") or [])
    consts = tree.constants if sel.get("constants") == "ALL" else list(sel.get("constants") or [])
    incs = ["au/au.hh"]
    incs += ["au/units/%s.hh" % u for u in units]
    incs += ["au/constants/%s.hh" % c.lower() for c in consts]
    incs += list(sel.get("main_files") or [])
    if sel.get("io", True):
        incs.append("au/io.hh")
    if sel.get("user_main") and tu.startswith("probe"):
        incs.append(usermain.INCLUDE_NAME)  # the user's own header, a real file next to the sources
    if sel.get("added_unit"):
        incs.append("au/units/%s.hh" % addedunit.STEM)
    seen = set()
    incs = [i for i in incs if not (i in seen or seen.add(i))]
    if order_seed is not None:
        random.Random("%s|%s" % (order_seed, tu)).shuffle(incs)
        if tu.startswith("other") and len(incs) > 1:
            # in the second TU au/au.hh always comes last, so that some *selected* header is the
            # very first thing the compiler sees: with one selected header (the single-selection
            # and spine plans) that header is compiled entirely on its own
            incs.remove("au/au.hh")
            incs.append("au/au.hh")
            if incs[0] == "au/io.hh" and len(incs) > 2:
                incs[0], incs[1] = incs[1], incs[0]
    return incs


def preamble(tree, sel, variant, order_seed, tu, repeat):
    lines = []
    if variant == "single":
        for _ in range(repeat):
            lines.append('#include "au.hh"')
    else:
        for r in range(repeat):
            for i in includes_multi(tree, sel, order_seed, "%s/%d" % (tu, r)):
                lines.append('#include "%s"' % i)
    return lines


COMMON_HEAD = r"""
#include <chrono>
#include <cstdint>
#include <cstdio>
#include <cstring>
#include <ratio>
#include <type_traits>

int other_tu_value();
const char *other_tu_label();
void fine_tu_print();
unsigned other_tu_checksum();
const void *other_tu_label_address(unsigned i);

namespace probe {

// The same inline / template entities are odr-used from both translation units.
template <typename U>
unsigned checksum_one() {
    using namespace au;
    unsigned h = 2166136261u;
    for (const char *p = unit_label<U>(); *p; ++p) h = (h ^ static_cast<unsigned char>(*p)) * 16777619u;
    h += static_cast<unsigned>((make_quantity<U>(7) + make_quantity<U>(35)).in(U{}));
    h += static_cast<unsigned>(sizeof(Quantity<U, std::int16_t>));
    return h;
}

template <typename A, typename B>
void common(std::true_type) {
    using namespace au;
    std::printf(" common=[%s] lt=%d eq=%d", unit_label(common_unit(A{}, B{})),
                int(make_quantity<A>(1.0) < make_quantity<B>(1.0)), int(make_quantity<A>(0.0) == make_quantity<B>(0.0)));
}
template <typename A, typename B>
void common(std::false_type) {}

// points: this is where units with an origin (celsius, fahrenheit, kelvins) differ from the rest
template <typename A, typename B>
void points(std::true_type) {
    using namespace au;
    const auto pa = make_quantity_point<A>(100.0);
    const auto pb = make_quantity_point<B>(100.0);
    std::printf(" pt_lt=%d pt_eq=%d pt_diff=%.17g\n", int(pa < pb), int(pa == pb), (pa - pb).in(A{}));
}
template <typename A, typename B>
void points(std::false_type) {
    std::printf("\n");
}
template <typename A, typename B>
void pair_labels(std::true_type) {
    using namespace au;
    std::printf(" prod=[%s] quot=[%s]", unit_label(A{} * B{}), unit_label(A{} / B{}));
}
template <typename A, typename B>
void pair_labels(std::false_type) {
    // Distinct unit types that are quantity-equivalent (hertz / becquerel) cannot be multiplied:
    // Au has no strict total ordering for them and says so with a static_assert.  Not C20's
    // business, so the probe does not form that product.
    std::printf(" prod=[-] quot=[-]");
}
template <typename A, typename B>
void pair(const char *a, const char *b) {
    using namespace au;
    std::printf("pair %s %s samedim=%d", a, b, int(has_same_dimension(A{}, B{})));
    pair_labels<A, B>(std::integral_constant<bool, !AreUnitsQuantityEquivalent<A, B>::value>{});
    common<A, B>(std::integral_constant<bool, HasSameDimension<A, B>::value && !AreUnitsQuantityEquivalent<A, B>::value>{});
    points<A, B>(std::integral_constant<bool, HasSameDimension<A, B>::value && (!AreUnitsQuantityEquivalent<A, B>::value || !AreUnitsPointEquivalent<A, B>::value)>{});
}

// Units of time additionally go through the chrono interop with their own exact period.
template <typename U>
void chrono_for(std::true_type) {
    using namespace au;
    constexpr auto r = unit_ratio(U{}, Seconds{});
    using P = std::ratio<get_value<std::intmax_t>(numerator(r)), get_value<std::intmax_t>(denominator(r))>;
    const auto q = as_quantity(std::chrono::duration<int, P>{3});
    const auto qd = as_quantity(std::chrono::duration<double, P>{1.5});
    const auto q64 = as_quantity(std::chrono::duration<std::int64_t, P>{2});
    std::printf("  chrono [%s] [%s] [%s] %d %d\n", unit_label(decltype(q)::unit), unit_label(decltype(qd)::unit), unit_label(decltype(q64)::unit),
                int(q == make_quantity<U>(3)), int(as_chrono_duration(make_quantity<U>(7)).count()));
}
template <typename U>
void chrono_for(std::false_type) {}

template <typename U>
void unit(const char *name) {
    using namespace au;
    std::printf("unit %s label=[%s] strlen=%zu sizeof=%zu\n", name, unit_label<U>(),
                std::strlen(unit_label<U>()), sizeof(unit_label<U>()));
    constexpr auto q = make_quantity<U>(12);
    constexpr auto r = make_quantity<U>(5);
    std::printf("  int %d %d %d %d %d %d\n", (q + r).in(U{}), (q - r).in(U{}), (q % r).in(U{}),
                int(q > r), int(q == r), int(q != r));
    const auto d = make_quantity<U>(2.5);
    std::printf("  dbl %.17g %.17g %.17g\n", (d * 2.0).in(U{}), (d / 4).in(U{}), (-d).in(U{}));
    using Tri = decltype(U{} * mag<3>());
    const auto t = make_quantity<Tri>(4);
    std::printf("  mix %d %d %d\n", int(t == q), int(t < q), (t - q + r).in(U{}));
    std::printf("  dim %d %d\n", int(is_dimensionless(U{})), int(is_unitless_unit(U{})));
    const Quantity<U, std::int8_t> s8 = make_quantity<U>(std::int8_t{-7});
    const Quantity<U, std::uint16_t> u16 = make_quantity<U>(std::uint16_t{65535});
    std::printf("  sub %d %d %zu %zu\n", int((-s8).in(U{})), int((+u16).in(U{})), sizeof(s8),
                sizeof(u16));
    constexpr auto p10 = make_quantity_point<U>(10);
    constexpr auto p3 = make_quantity_point<U>(3);
    std::printf("  pt %d %d %d %.17g\n", (p10 - p3).in(U{}), int(p10 > p3), (p3 + make_quantity<U>(4)).in(U{}),
                make_quantity_point<U>(2.5).template as<double>(U{}).in(U{}));
    chrono_for<U>(std::integral_constant<bool, HasSameDimension<U, Seconds>::value>{});
}

template <typename C>
void constant(const char *name, C c) {
    using namespace au;
    using U = AssociatedUnitT<C>;
    std::printf("constant %s label=[%s] one=%.17g\n", name, unit_label<U>(), c.template as<double>(U{}).in(U{}));
}

}  // namespace probe
"""


def body_main(tree, sel, probe_cfg):
    units = probed_units(tree, sel)
    consts = probed_constants(tree, sel)
    io = sel.get("io", True)
    out = [COMMON_HEAD]
    if io:
        out.append("#include <sstream>\n")
    out.append(apisurface.definitions(probe_cfg, io))
    out.append(checksum_fn("local_checksum", unit_type_list(tree, units)))
    out.append("int main() {")
    out.append("    using namespace au;")
    out.append('    std::printf("other %d %s same_label=%d\\n", other_tu_value(), other_tu_label(),')
    out.append("                int(other_tu_label() == unit_label<Seconds>()));")
    out.append('    std::printf("base %d %d\\n", (hours(2) + minutes(30)).in(seconds), int(minutes(1) == seconds(60)));')
    out.append("    fine_tu_print();")
    types = unit_type_list(tree, units)
    # Every selected unit takes part in the cross-TU checksum below; the (expensive to compile)
    # full per-unit probe is instantiated for all of them up to FULL_PROBE_LIMIT, beyond that for
    # a seeded sample.
    full = list(types)
    if len(full) > FULL_PROBE_LIMIT:
        full = sorted(random.Random("%s|full" % probe_cfg.get("include_order")).sample(full, FULL_PROBE_LIMIT), key=types.index)
    for ty in full:
        out.append('    probe::unit<au::%s>("%s");' % (ty, ty))
    out.append('    std::printf("checksum local=%u other=%u\\n", local_checksum(), other_tu_checksum());')
    for i in range(min(len(types), 6)):
        out.append('    std::printf("label_address %d same=%d\\n", ' + str(i) + ", int(other_tu_label_address(%d) == static_cast<const void *>(au::unit_label<au::%s>())));" % (i, types[i]))
    npairs = min(8, len(types) - 1) if len(types) > 1 else 0
    for i in range(npairs):
        a, b = types[i], types[i + 1]
        out.append('    probe::pair<au::%s, au::%s>("%s", "%s");' % (a, b, a, b))
    seen = set()
    for c in consts:
        name = tree.constant_names.get(c.lower())
        if name and name not in seen:
            seen.add(name)
            out.append('    probe::constant("%s", au::%s);' % (name, name))
    if io:
        out.append("    {")
        out.append("        std::ostringstream oss;")
        out.append("        oss << seconds(3) << '|' << minutes(2.5) << '|' << ZERO << '|' << mag<5>() << '|' << make_quantity_point<Seconds>(4);")
        for u in units[:3]:
            for ty in tree.unit_types.get(u, [])[:1]:
                out.append("        oss << '|' << make_quantity<au::%s>(7);" % ty)
        out.append('        std::printf("io %s\\n", oss.str().c_str());')
        out.append("    }")
    out.append(apisurface.calls(probe_cfg, io))
    if sel.get("user_main"):
        out += usermain.probe_lines(tree, sel["user_main"])
    if sel.get("added_unit"):
        out += addedunit.probe_lines()
    if probe_cfg.get("user_macros"):
        for n in tree.macro_names:
            out.append("#ifdef %s" % n)
            out.append('    std::printf("macro %s %%d\\n", int(%s));' % (n, n))
            out.append("#else")
            out.append('    std::printf("macro %s undefined\\n");' % n)
            out.append("#endif")
    out.append("    return 0;")
    out.append("}")
    return "\n".join(out) + "\n"


BODY_OTHER = r"""
int other_tu_value() {
    using namespace au;
    return (hours(2) + minutes(30)).in(seconds) + int(unit_ratio(Hours{}, Minutes{}) == mag<60>());
}
const char *other_tu_label() { return au::unit_label<au::Seconds>(); }
"""


def unit_type_list(tree, units):
    seen = set()
    out = []
    for u in units:
        for ty in tree.unit_types.get(u, []):
            if ty not in seen:
                seen.add(ty)
                out.append(ty)
    return out


def checksum_fn(name, types):
    lines = ["unsigned %s() {" % name, "    unsigned h = 17u;"]
    for ty in types:
        lines.append("    h = h * 31u + probe::checksum_one<au::%s>();" % ty)
    lines += ["    return h;", "}"]
    return "\n".join(lines)


def body_other(tree, sel):
    units = probed_units(tree, sel)
    types = unit_type_list(tree, units)
    out = [COMMON_HEAD, BODY_OTHER, checksum_fn("other_tu_checksum", types)]
    out.append("const void *other_tu_label_address(unsigned i) {")
    out.append("    switch (i) {")
    for i, ty in enumerate(types[:6]):
        out.append("        case %d: return au::unit_label<au::%s>();" % (i, ty))
    out.append("        default: return nullptr;")
    out.append("    }")
    out.append("}")
    return "\n".join(out) + "\n"


# A third translation unit organised the way users of the multi-header tree often organise theirs:
# fine-grained includes only (no au/au.hh), plus a type of their own plugged into the documented
# customisation point CorrespondingQuantity<T>.  Against the single-file package it includes au.hh.
FINE_BODY = r"""
#include <cstdio>

namespace legacy {
struct Ticks {
    int n;
};
struct FTicks {
    double x;
};
}  // namespace legacy

namespace au {
template <>
struct CorrespondingQuantity<legacy::Ticks> {
    using Unit = Seconds;
    using Rep = int;
    static constexpr Rep extract_value(legacy::Ticks t) { return t.n; }
    static constexpr legacy::Ticks construct_from_value(Rep x) { return {x}; }
};
template <>
struct CorrespondingQuantity<legacy::FTicks> {
    using Unit = Seconds;
    using Rep = double;
    static constexpr Rep extract_value(legacy::FTicks t) { return t.x; }
    static constexpr legacy::FTicks construct_from_value(Rep x) { return {x}; }
};
}  // namespace au

void fine_tu_print() {
    using namespace au;
    constexpr legacy::Ticks t5{5};
    constexpr legacy::FTicks f30{30.0};
    const legacy::Ticks back = seconds(9);
    const legacy::FTicks fback = minutes(1.5);
    std::printf("fine %d %d %d %d %d %d %d | %d %d %.17g %.17g %.17g %zu %zu\n", int(seconds(3) < t5), int(t5 == seconds(5)), int(minutes(1) != t5), int(t5 >= seconds(6)),
                (seconds(2) + t5).in(seconds), (t5 - seconds(1)).in(seconds), as_quantity(t5).in(seconds), back.n, int(minutes(1) > t5),
                (minutes(1.0) + f30).in(seconds), (f30 - seconds(0.5)).in(seconds), fback.x, sizeof(seconds(2) + t5), sizeof(minutes(1.0) + f30));
}
"""


def fine_source(sel, variant):
    if variant == "single":
        pre = ['#include "au.hh"']
    else:
        pre = ['#include "au/quantity.hh"', '#include "au/units/seconds.hh"', '#include "au/units/minutes.hh"']
    return "\n".join(pre) + "\n" + FINE_BODY


def sources(tree, sel, probe_cfg, variant):
    """{filename: text} for one variant ('single' or 'multi')."""
    seed = probe_cfg.get("include_order")
    main = "\n".join(preamble(tree, sel, variant, seed, "probe", 2)) + "\n" + body_main(tree, sel, probe_cfg)
    if probe_cfg.get("user_macros") and tree.macro_names:
        # The user's program has macros of its own, with exactly the names the library looks at or
        # touches (#ifndef PI, #undef X, push_macro("X") ...): defined before the package is
        # included, inspected afterwards.  Both packagings must leave them in the same state.
        main = "".join("#define %s %d\n" % (n, 12345 + i) for i, n in enumerate(tree.macro_names)) + main
    other = "\n".join(preamble(tree, sel, variant, seed, "other", 1)) + "\n" + body_other(tree, sel)
    src = {"probe.cc": main, "other.cc": other, "fine.cc": fine_source(sel, variant)}
    if sel.get("user_main") and variant == "multi":
        src[usermain.INCLUDE_NAME] = usermain.text(tree, sel["user_main"])
    if sel.get("added_unit") and variant == "multi":
        for relname, text in addedunit.files(sel["added_unit"]).items():
            src[relname] = text
    return src
