"""Persistent simulator worker: one interpreter (launched with a fixed PYTHONHASHSEED) that executes
plans sent to it as JSON lines on stdin and answers with JSON lines on a dedicated fd.

The real stdout/stderr of this process are never touched by the simulated tool (the simulator
swaps sys.stdout/sys.stderr for the duration of a run).
"""
import json
import os
import sys

sys.path.insert(0, os.path.dirname(os.path.dirname(os.path.abspath(__file__))))

from sim import env as _env  # noqa: E402


def main():
    reply = os.fdopen(int(sys.argv[1]), "w")
    for line in sys.stdin:
        line = line.strip()
        if not line:
            continue
        req = json.loads(line)
        if req.get("op") == "quit":
            break
        try:
            if req.get("op") == "interleave":
                (ra, da), (rb, db) = _env.run_interleaved(
                    req["a"], req["b"], req["permille"],
                    step_budget=req.get("step_budget", _env.DEFAULT_STEP_BUDGET),
                    event_cap=req.get("event_cap", _env.DEFAULT_EVENT_CAP),
                )
                for res, data, pth in ((ra, da, req["out_paths"][0]), (rb, db, req["out_paths"][1])):
                    with open(pth, "wb") as f:
                        f.write(data)
                    if not req.get("want_events"):
                        res.pop("events", None)
                reply.write(json.dumps({"id": req.get("id"), "ok": True, "res": [ra, rb]}) + "\n")
                reply.flush()
                continue
            if req.get("op") == "session":
                outs = _env.run_session(
                    req["invocations"],
                    step_budget=req.get("step_budget", _env.DEFAULT_STEP_BUDGET),
                    event_cap=req.get("event_cap", _env.DEFAULT_EVENT_CAP),
                )
                results = []
                for k, (res, data) in enumerate(outs):
                    with open(req["out_paths"][k], "wb") as f:
                        f.write(data)
                    if not req.get("want_events"):
                        res.pop("events", None)
                    results.append(res)
                ans = {"id": req.get("id"), "ok": True, "res": results}
                reply.write(json.dumps(ans) + "\n")
                reply.flush()
                continue
            res, data = _env.run_plan(
                req["plan"],
                twin=req.get("twin"),
                step_budget=req.get("step_budget", _env.DEFAULT_STEP_BUDGET),
                event_cap=req.get("event_cap", _env.DEFAULT_EVENT_CAP),
            )
            if req.get("out_path"):
                with open(req["out_path"], "wb") as f:
                    f.write(data)
            if not req.get("want_events"):
                res.pop("events", None)
            res["hashseed_env"] = os.environ.get("PYTHONHASHSEED")
            ans = {"id": req.get("id"), "ok": True, "res": res}
        except BaseException as e:  # simulator bug: report, never die silently
            import traceback

            ans = {"id": req.get("id"), "ok": False, "error": "".join(traceback.format_exception(type(e), e, e.__traceback__))[-3000:]}
        reply.write(json.dumps(ans) + "\n")
        reply.flush()


if __name__ == "__main__":
    main()
