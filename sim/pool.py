"""Pool of persistent simulator workers, grouped by PYTHONHASHSEED (the hash seed is part of the
plan, so a plan always runs in an interpreter started with the hash seed it names)."""
import json
import os
import queue
import subprocess
import sys
import threading

from . import env as _env

HERE = os.path.dirname(os.path.abspath(__file__))


class HarnessError(Exception):
    pass


class SimWorker:
    def __init__(self, hashseed):
        self.hashseed = hashseed
        r, w = os.pipe()
        e = dict(os.environ)
        e["PYTHONHASHSEED"] = str(hashseed)
        e["PYTHONDONTWRITEBYTECODE"] = "1"
        e.pop("PYTHONUNBUFFERED", None)
        self.p = subprocess.Popen(
            [sys.executable, "-B", os.path.join(HERE, "worker.py"), str(w)],
            stdin=subprocess.PIPE,
            stdout=subprocess.DEVNULL,
            pass_fds=[w],
            env=e,
            cwd=os.path.dirname(HERE),
        )
        os.close(w)
        self.reply = os.fdopen(r, "r")
        self.n = 0

    def call(self, req):
        self.n += 1
        req = dict(req, id=self.n)
        try:
            self.p.stdin.write((json.dumps(req) + "\n").encode())
            self.p.stdin.flush()
            line = self.reply.readline()
        except (BrokenPipeError, OSError):
            line = ""
        if not line:
            raise HarnessError("simulator worker died (hashseed %s, rc %s)" % (self.hashseed, self.p.poll()))
        ans = json.loads(line)
        if not ans.get("ok"):
            raise HarnessError("simulator worker error:\n" + ans.get("error", "?"))
        return ans["res"]

    def close(self):
        try:
            self.p.stdin.write(b'{"op":"quit"}\n')
            self.p.stdin.flush()
            self.p.stdin.close()
        except Exception:
            pass
        try:
            self.p.wait(timeout=5)
        except Exception:
            self.p.kill()
        try:
            self.reply.close()
        except Exception:
            pass


class SimPool:
    def __init__(self, scratch, hashseeds, per_seed=2):
        self.scratch = scratch
        os.makedirs(scratch, exist_ok=True)
        self.queues = {}
        self.all = []
        self.lock = threading.Lock()
        self.counter = 0
        self.restarts = 0
        self.one_shot = 0
        self.runs = 0
        for hs in hashseeds:
            q = queue.Queue()
            for _ in range(per_seed):
                w = SimWorker(hs)
                self.all.append(w)
                q.put(w)
            self.queues[hs] = q

    def run(self, plan, twin=None, want_events=False, step_budget=None, event_cap=None):
        hs = plan.get("hashseed", 0)
        with self.lock:
            self.counter += 1
            self.runs += 1
            out_path = os.path.join(self.scratch, "out%07d.bin" % self.counter)
        req = {"plan": plan, "twin": twin, "out_path": out_path, "want_events": want_events}
        if step_budget:
            req["step_budget"] = step_budget
        if event_cap:
            req["event_cap"] = event_cap
        if hs not in self.queues:
            # a hash seed without a standing worker (the hash-seed sweep, a replay): a fresh
            # interpreter started with exactly that PYTHONHASHSEED, used once
            w = SimWorker(hs)
            try:
                res = w.call(req)
            finally:
                w.close()
            with self.lock:
                self.one_shot += 1
            try:
                with open(out_path, "rb") as f:
                    data = f.read()
            finally:
                try:
                    os.unlink(out_path)
                except OSError:
                    pass
            return res, data
        q = self.queues[hs]
        w = q.get()
        try:
            try:
                res = w.call(req)
            except HarnessError as first:
                if "died" not in str(first):
                    raise
                w.close()
                with self.lock:
                    self.restarts += 1
                    self.all.remove(w)
                    w = SimWorker(hs)
                    self.all.append(w)
                res = w.call(req)
        finally:
            q.put(w)
        try:
            with open(out_path, "rb") as f:
                data = f.read()
        finally:
            try:
                os.unlink(out_path)
            except OSError:
                pass
        return res, data

    def run_session(self, invocations, hashseed=0, want_events=False, step_budget=None, event_cap=None):
        """All invocations of a session run back to back in one worker (one simulated machine)."""
        if hashseed not in self.queues:
            raise HarnessError("no worker for hashseed %r" % (hashseed,))
        with self.lock:
            base = self.counter
            self.counter += len(invocations)
            self.runs += len(invocations)
        paths = [os.path.join(self.scratch, "out%07d.bin" % (base + 1 + k)) for k in range(len(invocations))]
        req = {"op": "session", "invocations": invocations, "out_paths": paths, "want_events": want_events}
        if step_budget:
            req["step_budget"] = step_budget
        if event_cap:
            req["event_cap"] = event_cap
        q = self.queues[hashseed]
        w = q.get()
        try:
            results = w.call(req)
        finally:
            q.put(w)
        out = []
        for res, pth in zip(results, paths):
            with open(pth, "rb") as f:
                data = f.read()
            os.unlink(pth)
            out.append((res, data))
        return out

    def run_interleaved(self, a, b, permille, hashseed=0, want_events=False, step_budget=None, event_cap=None):
        with self.lock:
            base = self.counter
            self.counter += 2
            self.runs += 3  # A solo (to count its system calls), A preempted, B
        paths = [os.path.join(self.scratch, "out%07d.bin" % (base + 1 + k)) for k in range(2)]
        req = {"op": "interleave", "a": a, "b": b, "permille": permille, "out_paths": paths, "want_events": want_events}
        if step_budget:
            req["step_budget"] = step_budget
        if event_cap:
            req["event_cap"] = event_cap
        if hashseed in self.queues:
            q = self.queues[hashseed]
            w = q.get()
            try:
                results = w.call(req)
            finally:
                q.put(w)
        else:
            w = SimWorker(hashseed)
            try:
                results = w.call(req)
            finally:
                w.close()
        out = []
        for res, pth in zip(results, paths):
            with open(pth, "rb") as f:
                data = f.read()
            os.unlink(pth)
            out.append((res, data))
        return out

    def close(self):
        for w in self.all:
            w.close()
