"""Build/compare oracle: what real compilers make of a generated header.

A verdict never looks at the *format* of the generated header, only at (a) whether the probe
program builds against it alone, (b) whether the same program builds against the multi-header tree
with the same toolchain and (c) what the two binaries print.
"""
import hashlib
import os
import re
import shutil
import subprocess
import threading

from . import probe as _probe
from . import tree as _tree

COMPILERS = {"g++": "g++", "clang++": "clang++"}
STDS = ("c++14", "c++17", "c++20")
RUN_TIMEOUT_S = 120
COMPILE_TIMEOUT_S = 900


def toolchain_id(tc):
    # (compiler, standard[, optimisation level]); -O0 unless stated
    return "%s/%s" % (tc[0], tc[1]) + ("/" + tc[2] if len(tc) > 2 and tc[2] != "-O0" else "")


class Builder:
    def __init__(self, scratch, tree):
        self.scratch = scratch
        self.tree = tree
        self.lock = threading.Lock()
        self.cache = {}
        self.inflight = {}
        self.n_builds = 0
        self.n_cache_hits = 0
        self.counter = 0
        os.makedirs(scratch, exist_ok=True)

    def _key(self, variant, header, sources, tc):
        h = hashlib.sha256()
        h.update(variant.encode())
        h.update(hashlib.sha256(header or b"").digest())
        for name in sorted(sources):
            h.update(name.encode())
            h.update(sources[name].encode())
        h.update(toolchain_id(tc).encode())
        return h.hexdigest()

    def build(self, variant, header, sources, tc):
        """Compile both TUs, link, run.  Returns a dict; results are cached by content."""
        key = self._key(variant, header, sources, tc)
        with self.lock:
            if key in self.cache:
                self.n_cache_hits += 1
                return self.cache[key]
            ev = self.inflight.get(key)
            if ev is None:
                ev = threading.Event()
                self.inflight[key] = ev
                mine = True
                self.counter += 1
                n = self.counter
            else:
                mine = False
        if not mine:
            ev.wait()
            with self.lock:
                self.n_cache_hits += 1
                return self.cache[key]
        try:
            res = self._do_build(n, variant, header, sources, tc)
        except BaseException as e:  # never leave waiters hanging
            res = {"ok": False, "stage": "harness", "diag": repr(e), "stdout": "", "rc": None, "harness_error": True}
        with self.lock:
            self.cache[key] = res
            self.n_builds += 1
            del self.inflight[key]
        ev.set()
        return res

    def syntax_only(self, text, tc):
        """Compile one translation unit against the multi-header tree with -fsyntax-only."""
        key = "syntax|" + hashlib.sha256((text + "|" + toolchain_id(tc)).encode()).hexdigest()
        with self.lock:
            if key in self.cache:
                self.n_cache_hits += 1
                return self.cache[key]
            self.counter += 1
            n = self.counter
        d = os.path.join(self.scratch, "s%06d" % n)
        os.makedirs(d)
        try:
            p = os.path.join(d, "alone.cc")
            with open(p, "w", encoding="utf-8") as f:
                f.write(text)
            inc = os.path.join(_tree.REPO, _tree.CODE_REL)
            try:
                r = subprocess.run([COMPILERS[tc[0]], "-std=" + tc[1], "-fsyntax-only", "-I", inc, p], cwd=d, stdout=subprocess.PIPE, stderr=subprocess.STDOUT, timeout=COMPILE_TIMEOUT_S)
                res = {"ok": r.returncode == 0, "diag": _head(r.stdout, d) if r.returncode else ""}
            except (OSError, subprocess.TimeoutExpired) as e:
                res = {"ok": False, "diag": repr(e), "harness_error": True}
        finally:
            shutil.rmtree(d, ignore_errors=True)
        with self.lock:
            self.cache[key] = res
            self.n_builds += 1
        return res

    def _do_build(self, n, variant, header, sources, tc):
        d = os.path.join(self.scratch, "b%06d" % n)
        src = os.path.join(d, "src")
        os.makedirs(src)
        try:
            if variant == "single":
                inc = os.path.join(d, "inc")
                os.makedirs(inc)
                with open(os.path.join(inc, "au.hh"), "wb") as f:
                    f.write(header)
            else:
                inc = os.path.join(_tree.REPO, _tree.CODE_REL)
            cxx = COMPILERS[tc[0]]
            objs = []
            for name in sorted(sources):  # headers first: they only have to be there
                if not name.endswith(".cc"):
                    os.makedirs(os.path.dirname(os.path.join(src, name)), exist_ok=True)
                    with open(os.path.join(src, name), "w", encoding="utf-8") as f:
                        f.write(sources[name])
            # headers of the tree that exist only in the simulated machine (a unit added between
            # two invocations): the multi-header build finds them next to the sources
            extra_inc = ["-I", src] if variant != "single" and any("/" in n for n in sources) else []
            for name in sorted(sources):
                if not name.endswith(".cc"):
                    continue
                p = os.path.join(src, name)
                with open(p, "w", encoding="utf-8") as f:
                    f.write(sources[name])
                o = p[:-3] + ".o"
                # No warning option is enabled or promoted (C20 is about acceptance, not warnings),
                # with one exception that cannot touch Au: -Werror=format.  Only the probe itself
                # calls printf; this guards the probe generator against passing a wrong type
                # through varargs, which would be undefined behaviour inside the oracle.
                cmd = [cxx, "-std=" + tc[1], tc[2] if len(tc) > 2 else "-O0", "-Wformat", "-Werror=format", "-I", inc] + extra_inc + ["-c", p, "-o", o]
                r = subprocess.run(cmd, cwd=src, stdout=subprocess.PIPE, stderr=subprocess.STDOUT, timeout=COMPILE_TIMEOUT_S)
                if r.returncode != 0:
                    return {"ok": False, "stage": "compile:" + name, "diag": _head(r.stdout, d), "stdout": "", "rc": None}
                objs.append(o)
            exe = os.path.join(d, "probe")
            r = subprocess.run([cxx, "-o", exe] + objs, cwd=src, stdout=subprocess.PIPE, stderr=subprocess.STDOUT, timeout=COMPILE_TIMEOUT_S)
            if r.returncode != 0:
                return {"ok": False, "stage": "link", "diag": _head(r.stdout, d), "stdout": "", "rc": None}
            try:
                r = subprocess.run([exe], cwd=d, stdout=subprocess.PIPE, stderr=subprocess.STDOUT, timeout=RUN_TIMEOUT_S)
            except subprocess.TimeoutExpired:
                return {"ok": False, "stage": "run-timeout", "diag": "probe binary did not finish", "stdout": "", "rc": None, "harness_error": True}
            return {"ok": True, "stage": "run", "diag": "", "stdout": r.stdout.decode("utf-8", "replace"), "rc": r.returncode}
        finally:
            shutil.rmtree(d, ignore_errors=True)


def _head(b, scratch_dir, n=12):
    txt = b.decode("utf-8", "replace").replace(scratch_dir, "<scratch>")
    lines = [l for l in txt.splitlines() if l.strip()]
    keep = [l for l in lines if "error" in l or "multiple definition" in l or "undefined reference" in l or "duplicate symbol" in l][:6] or lines[:n]
    return "\n".join(keep)[:1500]


def judge_twin(builder, tree, plan, header, extra_toolchain=True):
    """Full build/compare verdict for one generated header.  Returns (violation_class|None, detail)."""
    sel = plan["selection"]
    pcfg = plan.get("probe") or {}
    tca = tuple(plan["toolchain"]["a"])
    s_src = _probe.sources(tree, sel, pcfg, "single")
    m_src = _probe.sources(tree, sel, pcfg, "multi")
    s = builder.build("single", header, s_src, tca)
    m = builder.build("multi", None, m_src, tca)
    detail = {"toolchain": toolchain_id(tca), "single": _brief(s), "multi": _brief(m)}
    if s.get("harness_error") or m.get("harness_error"):
        return "HARNESS", detail
    verdict = None
    if s["ok"] and m["ok"]:
        if s["stdout"] != m["stdout"] or s["rc"] != m["rc"]:
            detail["diff"] = _first_diff(s["stdout"], m["stdout"])
            return "RESULT_MISMATCH", detail
        from . import apisurface as _api

        have = set(s["stdout"].splitlines())
        missing = [l for l in _api.required_lines(pcfg, sel.get("io", True)) if l not in have]
        if missing:
            got = [l for l in s["stdout"].splitlines() if l.split(" ")[:2] == missing[0].split(" ")[:2]]
            detail["expected_line"] = missing[0]
            detail["got_line"] = got[0] if got else None
            return "FWD_MISMATCH", detail
    elif m["ok"] and not s["ok"]:
        return "NOT_SELF_CONTAINED", detail
    elif s["ok"] and not m["ok"]:
        return "MULTI_REJECTS", detail
    elif s["stage"] == "link" and ("multiple definition" in s["diag"] or "duplicate symbol" in s["diag"]):
        # The probe's own symbols are distinct per TU, so a duplicate definition at link time
        # comes from the package: it cannot be included in several translation units, whatever
        # the multi-header tree does with the same program.
        return "NOT_MULTI_TU_SAFE", detail
    else:
        verdict = "BOTH_REJECT"
    if extra_toolchain and plan["toolchain"].get("matrix"):
        # the same probe, both packagings, under every compiler x standard configuration
        detail["matrix"] = {}
        tasks = []
        for comp in sorted(COMPILERS):
            for std in STDS:
                tc = (comp, std)
                if tc == tca:
                    continue
                # the multi-header program under every configuration; the single-file one (already
                # equal to it under `a`) under the configurations that differ from `a` in compiler
                # *and* standard - enough to see a packaging x toolchain interaction, half the cost
                if tc[0] != tca[0] and tc[1] != tca[1]:
                    tasks.append((tc, "single", header, s_src, s))
                tasks.append((tc, "multi", None, m_src, m))
        from concurrent.futures import ThreadPoolExecutor

        with ThreadPoolExecutor(10) as ex:
            outs = list(ex.map(lambda t: builder.build(t[1], t[2], t[3], t[0]), tasks))
        for (tc, which, hdr, src, r0), o in zip(tasks, outs):
            detail["matrix"]["%s/%s" % (toolchain_id(tc), which)] = {"ok": o["ok"], "same_output": bool(o["ok"] and r0["ok"] and o["stdout"] == r0["stdout"])}
        for (tc, which, hdr, src, r0), o in zip(tasks, outs):
            if o.get("harness_error"):
                return "HARNESS", detail
            if o["ok"] != r0["ok"] or (o["ok"] and (o["stdout"] != r0["stdout"] or o["rc"] != r0["rc"])):
                detail["toolchain_b"] = toolchain_id(tc)
                detail["b_variant"] = which
                detail["b"] = _brief(o)
                detail["a_ref"] = _brief(r0)
                if o["ok"] and r0["ok"]:
                    detail["diff"] = _first_diff(r0["stdout"], o["stdout"])
                return "TOOLCHAIN_DEPENDENT", detail
        return verdict, detail
    if verdict == "BOTH_REJECT" and extra_toolchain and not plan["toolchain"].get("b") and not plan["toolchain"].get("matrix"):
        # Both packagings reject under this configuration.  Before calling that inconclusive, ask
        # the other configurations: if one of them accepts the very same program, acceptance
        # depends on the toolchain, which C20 forbids.
        other = [c for c in sorted(COMPILERS) if c != tca[0]]
        alts = [(c, tca[1]) for c in other] + [(tca[0], st) for st in STDS if st != tca[1]]
        for tc in alts:
            o = builder.build("multi", None, m_src, tc)
            if o.get("harness_error"):
                return "HARNESS", detail
            if o["ok"]:
                detail["toolchain_b"] = toolchain_id(tc)
                detail["b_variant"] = "multi"
                detail["b"] = _brief(o)
                detail["a_ref"] = _brief(m)
                return "TOOLCHAIN_DEPENDENT", detail
    tcb = plan["toolchain"].get("b")
    if extra_toolchain and tcb and tuple(tcb) != tca:
        tcb = tuple(tcb)
        which = plan["toolchain"].get("b_variant", "single")
        if which == "single":
            o = builder.build("single", header, s_src, tcb)
            ref = s
        else:
            o = builder.build("multi", None, m_src, tcb)
            ref = m
        detail["toolchain_b"] = toolchain_id(tcb)
        detail["b_variant"] = which
        detail["b"] = _brief(o)
        detail["a_ref"] = _brief(ref)
        if o.get("harness_error"):
            return "HARNESS", detail
        if o["ok"] != ref["ok"] or (o["ok"] and (o["stdout"] != ref["stdout"] or o["rc"] != ref["rc"])):
            if o["ok"] and ref["ok"]:
                detail["diff"] = _first_diff(ref["stdout"], o["stdout"])
            return "TOOLCHAIN_DEPENDENT", detail
    return verdict, detail


def _brief(r):
    return {"ok": r["ok"], "stage": r["stage"], "rc": r["rc"], "diag": r["diag"][:600], "stdout_sha": hashlib.sha256(r["stdout"].encode()).hexdigest()[:12], "stdout_lines": r["stdout"].count("\n")}


def _first_diff(a, b):
    la, lb = a.splitlines(), b.splitlines()
    for i in range(max(len(la), len(lb))):
        x = la[i] if i < len(la) else "<missing>"
        y = lb[i] if i < len(lb) else "<missing>"
        if x != y:
            return {"line": i + 1, "a": x[:200], "b": y[:200]}
    return None


import functools


@functools.lru_cache(maxsize=256)
def code_lines(data):
    """The generated header with full-line // comments and blank lines deleted: the only lines the
    clock and the version string may legitimately touch, and lines that cannot affect compilation.
    Used only to *skip* rebuilding; a difference here is never a verdict by itself."""
    out = []
    for line in data.split(b"\n"):
        s = line.strip()
        if not s or s.startswith(b"//"):
            continue
        out.append(line.rstrip())
    return b"\n".join(out)


def _standalone_use(tree, header):
    """What a translation unit that includes only this header may at least do with it: a unit
    header lets one make, add, read back and label a quantity of its unit; a constant header lets
    one scale the constant.  (A header can compile on its own and still be unusable on its own -
    e.g. because what it names is only forward-declared there.)"""
    if tree is None:
        return ""
    m = re.match(r"au/units/(\w+)\.hh$", header)
    if m and not header.endswith("_fwd.hh") and tree.unit_types.get(m.group(1)):
        ty = tree.unit_types[m.group(1)][0]
        return (" constexpr auto q = au::make_quantity<au::%s>(3); static_assert((q + q).in(au::%s{}) == 6, \"\");"
                " if (au::unit_label(au::%s{})[0] == 0) { return 1; }" % (ty, ty, ty))
    m = re.match(r"au/constants/(\w+)\.hh$", header)
    if m and not header.endswith("_fwd.hh") and tree.constant_names.get(m.group(1)):
        return " const auto x = 2.0 * au::%s; (void)x;" % tree.constant_names[m.group(1)]
    return ""


def judge_header_alone(builder, header, tc):
    """Clause (c) sample: a public header, included as the very first thing of a translation unit
    (and once more, for its guard), under one compiler x standard configuration.  A failure only
    counts if the same header compiles when au/au.hh precedes it - then what is missing is an
    include of its own, not, say, a dependency on a test framework."""
    use = _standalone_use(getattr(builder, "tree", None), header)
    alone = builder.syntax_only('#include "%s"\n#include "%s"\nint main() {%s return 0; }\n' % (header, header, use), tc)
    detail = {"header": header, "toolchain": toolchain_id(tc), "alone": alone}
    if alone.get("harness_error"):
        return "HARNESS", detail
    if alone["ok"]:
        return None, detail
    after = builder.syntax_only('#include "au/au.hh"\n#include "%s"\nint main() {%s return 0; }\n' % (header, use), tc)
    detail["after_au_hh"] = after
    if after.get("harness_error"):
        return "HARNESS", detail
    if after["ok"]:
        return "HEADER_NOT_STANDALONE", detail
    return "BOTH_REJECT", detail


def judge_fwd_unit(builder, tree, unit, tc):
    """Clause (c): "every *_fwd.hh declaration matches its definition".  For one unit: every
    non-template `struct X;` that au/units/<unit>_fwd.hh declares in namespace au must be a
    complete type once au/units/<unit>.hh has been included.  Two compiles of the same tiny TU, with
    and without the completeness requirement: if it compiles without and not with, what is wrong
    is the correspondence between the forward declaration and the definition."""
    import os
    import re

    fwd = "au/units/%s_fwd.hh" % unit
    path = os.path.join(_tree.REPO, _tree.CODE_REL, fwd)
    if not os.path.exists(path):
        return None, {"unit": unit, "note": "no _fwd.hh"}
    with open(path, encoding="utf-8", errors="replace") as f:
        lines = f.read().splitlines()
    names = []
    for i, l in enumerate(lines):
        m = re.match(r"^\s*struct\s+(\w+)\s*;", l)
        if m and not (i > 0 and lines[i - 1].lstrip().startswith("template")):
            names.append(m.group(1))
    detail = {"unit": unit, "toolchain": toolchain_id(tc), "declared": names}
    if not names:
        return None, detail
    head = '#include "%s"\n' % fwd
    uses = "".join("au::%s *probe_ptr_%d = nullptr;\n" % (n, i) for i, n in enumerate(names))
    full = '#include "au/units/%s.hh"\n' % unit
    asserts = "".join('static_assert(sizeof(au::%s) > 0, "declared by %s, defined by %s.hh");\n' % (n, fwd, unit) for n in names)
    tail = "int main() { return 0; }\n"
    with_req = builder.syntax_only(head + uses + full + asserts + tail, tc)
    detail["with_requirement"] = with_req
    if with_req.get("harness_error"):
        return "HARNESS", detail
    if with_req["ok"]:
        return None, detail
    without = builder.syntax_only(head + uses + full + tail, tc)
    detail["without_requirement"] = without
    if without.get("harness_error"):
        return "HARNESS", detail
    if without["ok"]:
        return "FWD_MISMATCH", detail
    return "BOTH_REJECT", detail
