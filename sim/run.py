#!/usr/bin/python3
"""Deterministic simulation of the Au single-file generator in its environment (property C20).

  python3 sim/run.py c20 --tier quick|thorough      the registered checks
  python3 sim/run.py c20 --replay <file>            re-execute a replay file in this interpreter
  python3 sim/run.py selftest                       determinism + exit-model validation only

Exit status: 0 property held on everything explored; 1 violation (a line
`VIOLATION property=C20 replay=<path>` per root cause); 2 the simulator failed its own
determinism / replay gates: no verdict.
"""
import argparse
import atexit
import copy
import json
import os
import re
import shutil
import subprocess
import sys
import tempfile
import threading
import time
from concurrent.futures import ThreadPoolExecutor

VERIF = os.path.dirname(os.path.dirname(os.path.abspath(__file__)))
sys.path.insert(0, VERIF)

from sim import check as _check  # noqa: E402
from sim import coverage as _coverage  # noqa: E402
from sim import env as _env  # noqa: E402
from sim import minimise as _minimise  # noqa: E402
from sim import oracle as _oracle  # noqa: E402
from sim import plan as _plan  # noqa: E402
from sim import pool as _pool  # noqa: E402
from sim import tree as _tree  # noqa: E402

PROPERTY = "C20"
DEFAULT_SEED = 20260926
# VERIF_OUT redirects evidence and replay files (used by the sensitivity runner, which points the
# simulator at scratch copies of the repository and must not clobber the registered evidence).
_OUT = os.environ.get("VERIF_OUT") or VERIF
EVIDENCE = os.path.join(_OUT, "evidence", "C20.json")
REPLAYS = os.path.join(_OUT, "replays")
KNOWN = os.path.join(VERIF, "known_findings.json")

TIERS = {
    #            plans  faulty/plan  determinism plans  minimise budget  max groups minimised
    "quick": dict(plans=48, faulty=4, det_plans=12, min_budget=90, min_groups=6, spine=False),
    "thorough": dict(plans=1500, faulty=10, det_plans=128, min_budget=160, min_groups=12, spine=True),
}

REAL_RUN_TIMEOUT_S = 45

_perf = time.perf_counter


def say(*a):
    print(*a, flush=True)


class Scratch:
    def __init__(self):
        base = os.environ.get("TMPDIR") or "/tmp"
        self.dir = tempfile.mkdtemp(prefix="au-verif-c20-", dir=base)
        atexit.register(self.cleanup)

    def cleanup(self):
        shutil.rmtree(self.dir, ignore_errors=True)


def make_context(jobs, scratch, hashseeds=_plan.HASHSEEDS):
    tree = _tree.Tree()
    per = max(1, min(4, -(-jobs // len(hashseeds))))
    pool = _pool.SimPool(os.path.join(scratch.dir, "sim"), hashseeds, per_seed=per)
    builder = _oracle.Builder(os.path.join(scratch.dir, "build"), tree)
    return _check.Context(tree, pool, builder)


# ------------------------------------------------------------------------------------------------
# self-tests


def determinism_selftest(ctx, seed, n_plans, jobs, tier):
    """Same plan => same trace hash: twice on the shared pool, once serially, and in fresh
    interpreters started with other hash seeds.  Fault-free and faulty executions alike."""
    plans = [_plan.make_plan(ctx.tree, seed, 10_000_000 + i, tier) for i in range(n_plans)]
    cases = []
    for p in plans:
        cases.append(p)
    report = {"plans": 0, "executions": 0, "divergences": [], "hashseed_sensitive": 0, "max_steps": 0}

    def once(pool, p, twin=None, hs=None):
        q = copy.deepcopy(p)
        if hs is not None:
            q["hashseed"] = hs
        res, data = pool.run(q, twin=twin)
        return res, data

    alt_seeds = (4242, 31337)
    alt_pool = _pool.SimPool(os.path.join(ctx.pool.scratch, "alt"), alt_seeds, per_seed=max(1, jobs // 4))

    def one(p):
        out = {"execs": 0, "div": [], "hs": 0, "steps": 0}
        r1, d1 = once(ctx.pool, p)
        r2, d2 = once(ctx.pool, p)
        out["execs"] += 2
        out["steps"] = r1["steps"]
        if r1["trace_hash"] != r2["trace_hash"] or d1 != d2:
            out["div"].append({"run": p["run"], "kind": "fault-free repeat"})
        for hs in alt_seeds:
            r3, d3 = once(alt_pool, p, hs=hs)
            out["execs"] += 1
            if r3["trace_hash"] != r1["trace_hash"] or d3 != d1:
                # not a replay hazard (the hash seed is part of the plan) but worth knowing
                out["hs"] += 1
        if r1["status"] == 0 and not r1["hang"]:
            fp = _env.footprint(r1)
            for var in _plan.faulty_variants(p, seed, 2):
                fpn = _check.make_faulty(p, var)
                f1, e1 = once(ctx.pool, fpn, twin=fp)
                f2, e2 = once(ctx.pool, fpn, twin=fp)
                f3, e3 = once(alt_pool, fpn, twin=fp, hs=alt_seeds[0])
                out["execs"] += 3
                if f1["trace_hash"] != f2["trace_hash"] or e1 != e2:
                    out["div"].append({"run": p["run"], "kind": "faulty repeat", "variant": var["variant"]})
                if f3["trace_hash"] != f1["trace_hash"] or e3 != e1:
                    out["hs"] += 1
        return out

    try:
        # serial pass over a few plans (worker count 1), then the whole batch in parallel
        serial = [one(p) for p in plans[: max(1, n_plans // 8)]]
        with ThreadPoolExecutor(jobs) as ex:
            par = list(ex.map(one, plans))
        for p, s in zip(plans, serial):
            pass
        for o in serial + par:
            report["executions"] += o["execs"]
            report["divergences"] += o["div"]
            report["hashseed_sensitive"] += o["hs"]
            report["max_steps"] = max(report["max_steps"], o["steps"])
        report["plans"] = len(plans)
    finally:
        alt_pool.close()
    return report


_SHADOW = {}


def shadow_root(scratch_dir):
    """The real-process validation runs must not be able to leave anything in the repository (a
    tool under test may write cache files into its working directory): they run in a scratch
    directory that only holds symlinks to the repository's au/ and tools/.  The tool is therefore
    started through a symlinked path there; the simulated counterparts of these runs say so too
    (invoked_via_symlink), so that a tool which is sensitive to that behaves alike on both sides."""
    if scratch_dir not in _SHADOW:
        d = os.path.join(scratch_dir, "shadow-root")
        os.makedirs(d, exist_ok=True)
        for name in ("au", "tools"):
            os.symlink(os.path.join(_tree.REPO, name), os.path.join(d, name))
        _SHADOW[scratch_dir] = d
    return _SHADOW[scratch_dir]


_HERMETIC_N = [0]


def _hermetic(e):
    """A real run must not see (or leave) anything in the user's home, cache or temp directories:
    a tool under test that keeps state between runs would otherwise make one validation case
    depend on the previous one - and litter the machine."""
    _HERMETIC_N[0] += 1
    base = os.path.join(tempfile.gettempdir(), "au-verif-realhome-%d-%d" % (os.getpid(), _HERMETIC_N[0]))
    shutil.rmtree(base, ignore_errors=True)
    os.makedirs(os.path.join(base, "tmp"))
    atexit.register(shutil.rmtree, base, True)
    e.update({"HOME": base, "XDG_CACHE_HOME": os.path.join(base, ".cache"), "XDG_CONFIG_HOME": os.path.join(base, ".config"), "XDG_DATA_HOME": os.path.join(base, ".local/share"), "TMPDIR": os.path.join(base, "tmp")})
    return e


def _real_run(args, env_extra=None, stdout=None, drop_env=(), cwd=None):
    e = _hermetic(dict(os.environ))
    for k in ("PYTHONUNBUFFERED",) + tuple(drop_env):
        e.pop(k, None)
    e["PYTHONHASHSEED"] = "0"
    e["PYTHONDONTWRITEBYTECODE"] = "1"
    e.update(env_extra or {})
    try:
        root = cwd or _tree.REPO
        p = subprocess.run([sys.executable, os.path.join(root, _tree.TOOL_REL)] + args, cwd=root, env=e, stdout=stdout, stderr=subprocess.PIPE, timeout=REAL_RUN_TIMEOUT_S)
    except subprocess.TimeoutExpired:
        # The real tool did not finish.  That is not a verdict (no wall clock takes part in
        # one): the simulated runs will say GEN_HANG by step budget if it really loops.
        class _T:
            returncode = "timeout"
            stdout = b""
            stderr = b""

        return _T()
    return p


def exit_model_validation(ctx):
    """The simulator models process exit (uncaught exception -> 1, failing final flush -> 120,
    SystemExit(n) -> n).  Compare that model with the real interpreter under real, deterministic
    faults.  Disagreement on zero/non-zero => the simulator's verdicts cannot be trusted."""
    root = shadow_root(ctx.pool.scratch)
    _rr = _real_run

    def _real_run_shadow(args, env_extra=None, **kw):
        # the shadow root is not a git repository; make that explicit and machine-independent,
        # and tell the simulated side the same thing (git exits 128 unless a case says otherwise)
        e = {"GIT_DIR": "/nonexistent-dir/.git", "GIT_CEILING_DIRECTORIES": "/"}
        e.update(env_extra or {})
        return _rr(args, cwd=root, env_extra=e, **kw)

    cases = []
    base_sel = {"units": ["meters", "seconds"] if "meters" in ctx.tree.units else ctx.tree.units[:2], "constants": [], "io": True, "version_id": "X", "main_files": [], "opt_order": ["units", "constants", "noio", "version"]}
    args = _env.argv_of(base_sel)

    def simulate(env_over, faults, sel=None):
        plan = {"seed": 0, "run": "exitmodel", "hashseed": 0, "selection": sel or base_sel, "env": dict({"listdir": {}, "extra_entries": {}, "clock": ["2026-01-01T00:00:00"], "git": "exit128", "git_repo": "norepo", "stdout_mode": "block", "invoked_via_symlink": True}, **env_over), "faults": [], "toolchain": {"a": ["g++", "c++14"]}, "probe": {}}
        tres, tdata = ctx.pool.run(plan)
        if not faults:
            return tres, tdata
        if tres["status"] != 0 or tres["hang"]:
            return tres, tdata  # nothing to resolve faults against: the plain run already fails
        fplan = copy.deepcopy(plan)
        fplan["faults"] = faults
        return ctx.pool.run(fplan, twin=_env.footprint(tres))

    def strip_year(b):
        return re.sub(rb"^// Copyright \d+", b"// Copyright YEAR", b, count=1)

    # 1. fault-free, to a pipe
    r = _real_run_shadow(args, stdout=subprocess.PIPE)
    s, d = simulate({}, [])
    cases.append({"case": "fault-free to a pipe", "real": r.returncode, "sim": s["status"], "bytes_equal": strip_year(r.stdout) == strip_year(d)})
    if r.returncode == "timeout":
        # the real tool does not even finish a plain run: nothing else can be compared; the
        # simulated runs decide (by step budget) whether that is a hang
        return {"cases": cases, "n": 0, "not_comparable": 1, "agreed": 0, "agreed_exact_status": 0}
    # 2. /dev/full, block buffered
    with open("/dev/full", "wb") as full:
        r = _real_run_shadow(args, stdout=full)
    s, d = simulate({}, [{"op": "write", "where": "first", "permille": 0, "kind": "ENOSPC", "persistent": True}])
    cases.append({"case": "stdout=/dev/full (block buffered)", "real": r.returncode, "sim": s["status"]})
    # 3. /dev/full, unbuffered
    with open("/dev/full", "wb") as full:
        r = _real_run_shadow(args, stdout=full, env_extra={"PYTHONUNBUFFERED": "1"})
    s, d = simulate({"stdout_mode": "unbuffered"}, [{"op": "write", "where": "first", "permille": 0, "kind": "ENOSPC", "persistent": True}])
    cases.append({"case": "stdout=/dev/full (unbuffered)", "real": r.returncode, "sim": s["status"]})
    # 4. reader already gone: EPIPE
    rd, wr = os.pipe()
    os.close(rd)
    try:
        r = _real_run_shadow(args, stdout=wr)
    finally:
        os.close(wr)
    s, d = simulate({}, [{"op": "write", "where": "first", "permille": 0, "kind": "EPIPE", "persistent": True}])
    cases.append({"case": "stdout=pipe without reader", "real": r.returncode, "sim": s["status"]})
    # 5. no git on PATH (even though --version-id is given: the default is evaluated eagerly)
    r = _real_run_shadow(args, stdout=subprocess.PIPE, env_extra={"PATH": "/nonexistent-dir"})
    s, d = simulate({"git": "enoent"}, [])
    cases.append({"case": "git not installed", "real": r.returncode, "sim": s["status"]})
    # 6. git present but fails (not a repository)
    if shutil.which("git"):
        r = _real_run_shadow(args, stdout=subprocess.PIPE, env_extra={"GIT_DIR": "/nonexistent-dir/.git", "GIT_CEILING_DIRECTORIES": "/"})
        s, d = simulate({"git": "exit128"}, [])
        cases.append({"case": "git exits 128", "real": r.returncode, "sim": s["status"], "bytes_equal": strip_year(r.stdout) == strip_year(d)})
        sel2 = dict(base_sel, version_id=None)
        r = _real_run_shadow(_env.argv_of(sel2), stdout=subprocess.PIPE, env_extra={"GIT_DIR": "/nonexistent-dir/.git", "GIT_CEILING_DIRECTORIES": "/"})
        s, d = simulate({"git": "exit128"}, [], sel=sel2)
        cases.append({"case": "git exits 128, version from git", "real": r.returncode, "sim": s["status"], "bytes_equal": strip_year(r.stdout) == strip_year(d)})
    # 6b. a device that fails only near the end: RLIMIT_FSIZE on a regular file, at several distances
    #     from the end of the output.  This is the case that decides whether a failing *final* flush
    #     is loud (120) or silently swallowed by CPython's flush_io() (status unchanged).
    import resource

    def fsize_bytes_equal(rc, s, got, d):
        # RLIMIT_FSIZE limits every file the real process writes, the simulated fault only fd 1: if
        # the tool under test also writes files of its own (a staging file, a cache) and both
        # runs fail, how far each got is not comparable
        if rc != 0 and s["status"] != 0 and s.get("overlay_files"):
            return True
        return strip_year(got) == strip_year(d)

    ref = _real_run_shadow(args, stdout=subprocess.PIPE)
    if ref.returncode == 0 and len(ref.stdout) > 20000:
        n = len(ref.stdout)
        for cut in (100, 3000, 5000, 7000, 9000):
            limit = n - cut
            outp = os.path.join(ctx.pool.scratch, "fsize.out")
            e = _hermetic(dict(os.environ))
            e.pop("PYTHONUNBUFFERED", None)
            e.update({"PYTHONHASHSEED": "0", "PYTHONDONTWRITEBYTECODE": "1", "GIT_DIR": "/nonexistent-dir/.git", "GIT_CEILING_DIRECTORIES": "/"})

            def pre(limit=limit):
                resource.setrlimit(resource.RLIMIT_FSIZE, (limit, limit))

            with open(outp, "wb") as f:
                try:
                    p = subprocess.run([sys.executable, os.path.join(root, _tree.TOOL_REL)] + args, cwd=root, env=e, stdout=f, stderr=subprocess.PIPE, preexec_fn=pre, timeout=REAL_RUN_TIMEOUT_S)
                    rc = p.returncode
                except subprocess.TimeoutExpired:
                    rc = "timeout"
            with open(outp, "rb") as f:
                got = f.read()
            os.unlink(outp)
            s, d = simulate({}, [{"op": "write", "where": "at_byte", "at_byte": limit, "kind": "EFBIG", "persistent": True}])
            cases.append({"case": "RLIMIT_FSIZE = output length - %d" % cut, "real": rc, "sim": s["status"], "bytes_equal": fsize_bytes_equal(rc, s, got, d)})
        # the same with an unbuffered stdout (python -u / PYTHONUNBUFFERED), where every print is a write(2)
        for cut in (5000, 150000):
            limit = n - cut
            outp = os.path.join(ctx.pool.scratch, "fsize.out")
            e = _hermetic(dict(os.environ))
            e.update({"PYTHONUNBUFFERED": "1", "PYTHONHASHSEED": "0", "PYTHONDONTWRITEBYTECODE": "1", "GIT_DIR": "/nonexistent-dir/.git", "GIT_CEILING_DIRECTORIES": "/"})

            def pre(limit=limit):
                resource.setrlimit(resource.RLIMIT_FSIZE, (limit, limit))

            with open(outp, "wb") as f:
                try:
                    p = subprocess.run([sys.executable, os.path.join(root, _tree.TOOL_REL)] + args, cwd=root, env=e, stdout=f, stderr=subprocess.PIPE, preexec_fn=pre, timeout=REAL_RUN_TIMEOUT_S)
                    rc = p.returncode
                except subprocess.TimeoutExpired:
                    rc = "timeout"
            with open(outp, "rb") as f:
                got = f.read()
            os.unlink(outp)
            s, d = simulate({"stdout_mode": "unbuffered"}, [{"op": "write", "where": "at_byte", "at_byte": limit, "kind": "EFBIG", "persistent": True}])
            cases.append({"case": "unbuffered, RLIMIT_FSIZE = output length - %d" % cut, "real": rc, "sim": s["status"], "bytes_equal": fsize_bytes_equal(rc, s, got, d)})
    # 7. an unreadable input: a unit name whose header does not exist (ENOENT at open)
    sel3 = dict(base_sel, units=["no_such_unit_zzz"])
    r = _real_run_shadow(_env.argv_of(sel3), stdout=subprocess.PIPE)
    s, d = simulate({}, [], sel=sel3)
    cases.append({"case": "open() -> ENOENT", "real": r.returncode, "sim": s["status"]})
    # 8. bad usage: argparse exits 2
    sel4 = dict(base_sel)
    r = _real_run_shadow(["--no-such-option"], stdout=subprocess.PIPE)
    plan4 = {"seed": 0, "run": "exitmodel", "hashseed": 0, "selection": dict(base_sel, argv=["--no-such-option"]), "env": {"listdir": {}, "extra_entries": {}, "clock": ["2026-01-01T00:00:00"], "git": "exit128", "git_repo": "norepo", "stdout_mode": "block", "invoked_via_symlink": True}, "faults": [], "toolchain": {"a": ["g++", "c++14"]}, "probe": {}}
    s, d = ctx.pool.run(plan4)
    cases.append({"case": "usage error", "real": r.returncode, "sim": s["status"]})
    # 8b. fd 1 is a non-blocking pipe whose reader lags (a parent that set O_NONBLOCK on a shared
    #     pipe: ssh, node-based task runners): once the pipe is full every write(2) fails with
    #     EAGAIN.  Buffered sys.stdout: BlockingIOError inside print.  Unbuffered sys.stdout
    #     (python -u, PYTHONUNBUFFERED=1): io.FileIO.write returns None, CPython's text layer does
    #     not look at it - whether that ends in a silent truncation is up to the tool.
    import fcntl

    for label, unbuf in (("buffered", False), ("unbuffered", True)):
        rd, wr = os.pipe()
        fcntl.fcntl(wr, fcntl.F_SETFL, fcntl.fcntl(wr, fcntl.F_GETFL) | os.O_NONBLOCK)
        try:
            r = _real_run_shadow(args, stdout=wr, env_extra=({"PYTHONUNBUFFERED": "1"} if unbuf else None))
        finally:
            os.close(wr)
        got = b""
        while True:  # the child has exited (it never blocks): now drain the pipe
            chunk = os.read(rd, 1 << 16)
            if not chunk:
                break
            got += chunk
        os.close(rd)
        s, d = simulate({"stdout_mode": "unbuffered" if unbuf else "block"}, [])
        if len(d or b"") > 65536:
            # (a pipe holds 64 KiB: an output that fits never sees EAGAIN, in either world)
            s, d = simulate({"stdout_mode": "unbuffered" if unbuf else "block"}, [{"op": "write", "where": "at_byte", "at_byte": 65536, "kind": "EAGAIN", "persistent": True}])
        cases.append({"case": "stdout=non-blocking pipe, reader lags (%s)" % label, "real": r.returncode, "sim": s["status"], "real_len": len(got), "sim_len": len(d or b""), "bytes_equal": (len(got) < 100000) == (len(d or b"") < 100000)})
    # 8c. file descriptor 2 closed when the tool starts (`2>&-`): sys.stderr is None
    sel_nogit = dict(base_sel, version_id=None)
    e2 = _hermetic(dict(os.environ))
    e2.pop("PYTHONUNBUFFERED", None)
    e2.update({"PYTHONHASHSEED": "0", "PYTHONDONTWRITEBYTECODE": "1", "GIT_DIR": "/nonexistent-dir/.git", "GIT_CEILING_DIRECTORIES": "/"})
    try:
        p2 = subprocess.run([sys.executable, os.path.join(root, _tree.TOOL_REL)] + _env.argv_of(sel_nogit), cwd=root, env=e2, stdout=subprocess.PIPE, preexec_fn=lambda: os.close(2), timeout=REAL_RUN_TIMEOUT_S)
        rc2, out2 = p2.returncode, p2.stdout
    except subprocess.TimeoutExpired:
        rc2, out2 = "timeout", b""
    s, d = simulate({"stderr_closed": True, "git": "exit128"}, [], sel=sel_nogit)
    cases.append({"case": "fd 2 closed, version from a failing git", "real": rc2, "sim": s["status"], "bytes_equal": strip_year(out2) == strip_year(d)})
    # 9. the locale's text encoding.  A --version-id that is not ASCII, under a UTF-8 locale and
    #    under a plain C locale with CPython's UTF-8 coercion switched off (ASCII + surrogateescape
    #    on argv and stdout: the bytes pass through unchanged).
    sel5 = dict(base_sel, version_id="v1-M\u00fcller-\u00b5")
    utf8_env = {"LC_ALL": "C.UTF-8", "LANG": "C.UTF-8", "PYTHONUTF8": "0", "PYTHONCOERCECLOCALE": "0"}
    ascii_env = {"LC_ALL": "C", "LANG": "C", "PYTHONUTF8": "0", "PYTHONCOERCECLOCALE": "0"}
    drop = ("PYTHONIOENCODING", "LC_CTYPE", "LC_MESSAGES")
    for label, real_env, enc in (("UTF-8 locale", utf8_env, "utf-8"), ("C locale without UTF-8 coercion", ascii_env, "ascii")):
        r = _real_run_shadow(_env.argv_of(sel5), stdout=subprocess.PIPE, env_extra=real_env, drop_env=drop)
        s, d = simulate({"encoding": enc}, [], sel=sel5)
        cases.append({"case": "non-ASCII --version-id, %s" % label, "real": r.returncode, "sim": s["status"], "bytes_equal": True if (r.returncode != 0 and s["status"] != 0) else strip_year(r.stdout) == strip_year(d)})
    # 10. ... and a user's own header with non-ASCII text in it given as a main file: copied through
    #     under UTF-8, a UnicodeDecodeError (status 1) in the C locale
    from sim import usermain as _um

    um = {"style": "quoted", "unit": base_sel["units"][0], "non_ascii": True}
    real_um = os.path.join(ctx.pool.scratch, "acme_units.hh")
    with open(real_um, "w", encoding="utf-8") as f:
        f.write(_um.text(ctx.tree, um))
    sel6 = dict(base_sel, user_main=um)
    real_args = [real_um if a == _um.PATH else a for a in _env.argv_of(sel6)]
    for label, real_env, enc in (("UTF-8 locale", utf8_env, "utf-8"), ("C locale without UTF-8 coercion", ascii_env, "ascii")):
        r = _real_run_shadow(real_args, stdout=subprocess.PIPE, env_extra=real_env, drop_env=drop)
        s, d = simulate({"encoding": enc}, [], sel=sel6)
        # (when both runs fail there is no header to compare: what a failing run had already
        # printed is covered by the RLIMIT_FSIZE cases)
        same = True if (r.returncode != 0 and s["status"] != 0) else _oracle.code_lines(r.stdout or b"") == _oracle.code_lines(d or b"")
        cases.append({"case": "non-ASCII user header as main file, %s" % label, "real": r.returncode, "sim": s["status"], "bytes_equal": same})
    os.unlink(real_um)
    agreed = 0
    agreed_exact = 0
    comparable = 0
    for c in cases:
        if c["real"] == "timeout" or c["sim"] is None:
            # real run timed out / simulated run hit the step budget: nothing to compare
            c["agree_class"] = None
            c["agree_exact"] = None
            continue
        comparable += 1
        c["agree_class"] = (c["real"] == 0) == (c["sim"] == 0) and c.get("bytes_equal", True)
        c["agree_exact"] = c["real"] == c["sim"]
        agreed += bool(c["agree_class"])
        agreed_exact += bool(c["agree_exact"])
    return {"cases": cases, "n": comparable, "not_comparable": len(cases) - comparable, "agreed": agreed, "agreed_exact_status": agreed_exact}


# ------------------------------------------------------------------------------------------------
# campaign


class Stats:
    def __init__(self):
        self.lock = threading.Lock()
        self.sim_runs = 0
        self.fault_free = 0
        self.faulty = 0
        self.faults_planned = {}
        self.faults_delivered = {}
        self.git_outcomes = {}
        self.probes = {}
        self.toolchains = {}
        self.stdout_modes = {}
        self.encodings = {}
        self.clocks = {}
        self.hashseeds = {}
        self.outcomes = {}
        self.max_steps = 0
        self.escalated = 0
        self.inconclusive = []
        self.handled_only_runs = 0
        self.unhandled_runs = 0
        self.loud_failures = 0
        self.sweep_variants = 0
        self.header_alone = 0
        self.hashseed_runs = 0
        self.hashseed_differs = 0
        self.tool_lines = set()
        self.edge_programs = 0
        self.edge_outcomes = {}
        self.concurrent = 0
        self.concurrent_outcomes = {}
        self.sessions = 0
        self.session_invocations = 0
        self.session_outcomes = {}

    def bump(self, d, k, n=1):
        d[k] = d.get(k, 0) + n


def hash_spread(name):
    import hashlib

    return int(hashlib.sha256(str(name).encode()).hexdigest()[:8], 16)


def fault_kind(f):
    if f["op"] == "write":
        return "write:" + f["kind"]
    if f["op"] == "git":
        return "git:" + f["kind"]
    if f["op"] in ("interrupt", "memerror", "kill", "powerloss"):
        return f["op"]
    return "%s:%s" % (f["op"], f.get("errno"))


def run_campaign(tier, seed, jobs, only_runs=None):
    t0 = _perf()
    cfg = dict(TIERS[tier])
    if os.environ.get("VERIF_PLANS"):
        cfg["plans"] = int(os.environ["VERIF_PLANS"])
    if os.environ.get("VERIF_MIN_GROUPS"):  # how many root causes get minimised (regression runs: 1)
        cfg["min_groups"] = int(os.environ["VERIF_MIN_GROUPS"])
    scratch = Scratch()
    ctx = make_context(jobs, scratch)
    tree = ctx.tree
    stats = Stats()
    cov = _coverage.OrderCoverage(tree)
    say("C20 simulation: tier=%s VERIF_SEED=%d jobs=%d repo=%s" % (tier, seed, jobs, _tree.REPO))
    say("tree: %d units, %d constants, %d public headers, fingerprint %s" % (len(tree.units), len(tree.constants), len(tree.public_headers), tree.fingerprint()[:16]))
    non_ascii = tree.non_ascii_headers()
    if non_ascii:
        say("note: non-ASCII headers present (encoding knob not simulated): %s" % non_ascii[:5])

    try:
        # -- 0. the simulator must be deterministic and its exit model must match reality ----------
        det = determinism_selftest(ctx, seed, cfg["det_plans"], jobs, tier)
        say("determinism self-test: %d plans, %d executions, %d divergences, %d hash-seed-sensitive" % (det["plans"], det["executions"], len(det["divergences"]), det["hashseed_sensitive"]))
        exitm = exit_model_validation(ctx)
        say("exit-model validation against the real interpreter: %d/%d agree (exact status: %d/%d)" % (exitm["agreed"], exitm["n"], exitm["agreed_exact_status"], exitm["n"]))
        if det["divergences"] or exitm["agreed"] != exitm["n"]:
            say("SIMULATOR SELF-TEST FAILED: no verdicts.")
            for d in det["divergences"][:10]:
                say("  divergence:", json.dumps(d))
            for c in exitm["cases"]:
                if not c["agree_class"]:
                    say("  exit model disagrees:", json.dumps(c))
            write_evidence(tier, seed, t0, ctx, stats, cov, det, exitm, [], [], cfg, selftest_failed=True)
            return 2
        ctx.step_budget = max(_env.DEFAULT_STEP_BUDGET, 20 * det["max_steps"])

        # -- 1. plans ----------------------------------------------------------------------------
        # the expensive plans first (the matrix plan alone is a dozen big builds), so that they
        # overlap with everything else instead of trailing behind it
        plans = _plan.matrix_plans(tree, seed, tier)
        plans += [_plan.make_plan(tree, seed, i, tier) for i in range(cfg["plans"])]
        if cfg["spine"]:
            plans += _plan.spine(tree, seed)
        else:
            plans += _plan.singles(tree, seed)
        plans += _plan.cli_shape_plans(tree, seed, tier)
        plans += _plan.sweep_plans(tree, seed, tier)
        if only_runs:
            plans = [p for p in plans if str(p["run"]) in only_runs]
        records = [None] * len(plans)
        harness_errors = []

        sweep_jobs = []

        def account_faulty(frec, fplan):
            with stats.lock:
                stats.faulty += 1
                for f in fplan["faults"]:
                    stats.bump(stats.faults_planned, fault_kind(f))
                if "base_git" in fplan:
                    stats.bump(stats.faults_planned, "git:" + fplan["env"]["git"])
                    stats.bump(stats.git_outcomes, fplan["env"]["git"])
                stats.tool_lines.update(frec["sim"].get("lines_hit", []))
                for f in frec["sim"]["delivered"]:
                    stats.bump(stats.faults_delivered, fault_kind(f))
                for k, v in frec["sim"]["probes"].items():
                    stats.bump(stats.probes, k, v)
                if frec["sim"]["probes"].get("git_nonzero_exit"):
                    stats.bump(stats.faults_delivered, "git:nonzero-exit(handled)")
                if frec.get("escalated"):
                    stats.escalated += 1
                if frec.get("outcome"):
                    stats.bump(stats.outcomes, frec["outcome"])
                if frec["delivered_unhandled"]:
                    stats.unhandled_runs += 1
                elif frec["sim"]["delivered"] or frec["sim"]["probes"].get("git_nonzero_exit"):
                    stats.handled_only_runs += 1
                for f in frec["sim"]["delivered"]:
                    if f["op"] == "write" and f.get("where") == "last_buffer":
                        stats.bump(stats.probes, "write_fault_in_last_buffer")
                    if f["op"] == "read":
                        stats.bump(stats.probes, "read_fault_delivered")
                    if f["op"] == "open" and f.get("errno") == "ENOENT":
                        stats.bump(stats.probes, "missing_file_seen_by_tool")
            if frec.get("harness_error"):
                harness_errors.append(frec["harness_error"])

        def process(ix):
            plan = plans[ix]
            rec, tres, tdata = _check.evaluate_twin(ctx, plan)
            recs = [rec]
            with stats.lock:
                stats.fault_free += 1
                stats.tool_lines.update(tres.get("lines_hit", []))
                stats.max_steps = max(stats.max_steps, tres["steps"])
                stats.bump(stats.toolchains, _oracle.toolchain_id(plan["toolchain"]["a"]))
                if plan["toolchain"].get("b"):
                    stats.bump(stats.toolchains, _oracle.toolchain_id(plan["toolchain"]["b"]))
                stats.bump(stats.stdout_modes, plan["env"]["stdout_mode"])
                stats.bump(stats.encodings, plan["env"].get("encoding") or "utf-8")
                stats.bump(stats.clocks, plan["env"]["clock"][0][:4])
                stats.bump(stats.hashseeds, str(plan["hashseed"]))
                stats.bump(stats.git_outcomes, plan["env"]["git"].split(":")[0])
                for k, v in tres["probes"].items():
                    stats.bump(stats.probes, k, v)
                sel = plan["selection"]
                if sel.get("units") == "ALL":
                    stats.bump(stats.probes, "all_units_path")
                if sel.get("constants") == "ALL":
                    stats.bump(stats.probes, "all_constants_path")
                elif sel.get("constants"):
                    stats.bump(stats.probes, "constants_path")
                if sel.get("main_files"):
                    stats.bump(stats.probes, "main_files_path")
                if not sel.get("io", True):
                    stats.bump(stats.probes, "noio_path")
                if sel.get("version_id") is None:
                    stats.bump(stats.probes, "version_from_git")
                if rec["inconclusive"]:
                    stats.inconclusive.append({"run": plan["run"], "why": rec["inconclusive"], "detail": (rec.get("oracle") or {}).get("detail")})
                if tres["status"] == 0 and not tres["hang"] and rec["oracle"] is not None:
                    nontrivial = bool(sel.get("units")) or bool(sel.get("constants")) or bool(sel.get("main_files"))
                    cov.record(tres["opened"], tdata, nontrivial)
            if rec.get("harness_error"):
                harness_errors.append(rec["harness_error"])
            if tres["status"] == 0 and not tres["hang"] and not rec["inconclusive"]:
                if str(plan["run"]).startswith("sweep-"):
                    sweep_jobs.append((ix, plan, tres, tdata))
                else:
                    nf = cfg["faulty"] if isinstance(plan["run"], int) else 1
                    for var in _plan.faulty_variants(plan, seed, nf):
                        fplan = _check.make_faulty(plan, var)
                        frec = _check.evaluate_faulty(ctx, fplan, tres, tdata)
                        frec["_case"] = fplan
                        recs.append(frec)
                        account_faulty(frec, fplan)
            rec["_case"] = plan
            records[ix] = recs
            return ix

        # One pool for the whole campaign, no barriers between stages: the expensive plans and the
        # sweep plans go first; sessions and stand-alone headers do not depend on anything; the
        # sweep variants and the hash-seed sweep are submitted as soon as their twins are done.
        splans = _plan.session_plans(tree, seed, tier) + _plan.crash_sweep_sessions(tree, seed, tier) + _plan.tree_growth_sessions(tree, seed, tier)
        hcases = _plan.header_alone_cases(tree, seed, tier)
        cplans = _plan.concurrent_plans(tree, seed, tier)
        from sim import edge as _edge

        ecases = [{"seed": seed, "run": "edge-%s" % n, "edge_program": n} for n in _edge.names()]
        if only_runs:
            cplans = [p for p in cplans if str(p["run"]) in only_runs]
            splans = [p for p in splans if str(p["run"]) in only_runs]
            hcases = [c for c in hcases if c["run"] in only_runs]

        def do_session(sp):
            srec = _check.evaluate_session(ctx, sp)
            srec["_case"] = sp
            with stats.lock:
                stats.sessions += 1
                stats.session_invocations += len(sp["session"])
                for st in srec["steps"]:
                    for k, v in (st.get("probes") or {}).items():
                        stats.bump(stats.probes, k, v)
                    if st.get("outcome"):
                        stats.bump(stats.session_outcomes, st["outcome"])
            if srec.get("harness_error"):
                harness_errors.append(srec["harness_error"])
            return [srec]

        def do_concurrent(cp):
            crec = _check.evaluate_concurrent(ctx, cp)
            crec["_case"] = cp
            with stats.lock:
                stats.concurrent += 1
                for st in crec["steps"]:
                    for k, v in (st.get("probes") or {}).items():
                        stats.bump(stats.probes, k, v)
                    if st.get("outcome"):
                        stats.bump(stats.concurrent_outcomes, st["outcome"])
            if crec.get("harness_error"):
                harness_errors.append(crec["harness_error"])
            return [crec]

        def do_edge(c):
            ev = _check.evaluate_case(ctx, c)
            rec = {"run": c["run"], "kind": "edge-program", "violations": ev["violations"], "_case": c}
            with stats.lock:
                stats.edge_programs += 1
                t = ev.get("edge_table") or {}
                stats.bump(stats.edge_outcomes, "rejected everywhere" if t and all(v == "rejected" for v in t.values()) else "accepted everywhere" if t and all(v != "rejected" for v in t.values()) else "mixed")
            if ev.get("harness_error"):
                harness_errors.append(ev["harness_error"])
            return [rec]

        def do_header(c):
            ev = _check.evaluate_case(ctx, c)
            rec = {"run": c["run"], "kind": "header-alone", "violations": ev["violations"], "_case": c}
            with stats.lock:
                stats.header_alone += 1
                if ev.get("inconclusive"):
                    stats.inconclusive.append({"run": c["run"], "why": "header rejected alone and after au/au.hh"})
            if ev.get("harness_error"):
                harness_errors.append(ev["harness_error"])
            return [rec]

        def sweep_variant(var, plan, tres, tdata):
            fplan = _check.make_faulty(plan, var)
            # spread the sweep over all simulator workers (the twin's hash seed is recorded in the
            # case, so each variant still replays exactly)
            hs = _plan.HASHSEEDS[hash_spread(var["variant"]) % len(_plan.HASHSEEDS)]
            if hs != fplan.get("hashseed"):
                fplan["base_hashseed"] = fplan.get("hashseed", 0)
                fplan["hashseed"] = hs
            frec = _check.evaluate_faulty(ctx, fplan, tres, tdata)
            frec["_case"] = fplan
            account_faulty(frec, fplan)
            return frec

        def hash_variant(hs, plan, tres, tdata):
            fplan = copy.deepcopy(plan)
            fplan["base_hashseed"] = plan["hashseed"]
            fplan["hashseed"] = 1000 + hs
            fplan["variant"] = "hashseed-%d" % (1000 + hs)
            frec = _check.evaluate_faulty(ctx, fplan, tres, tdata)
            frec["_case"] = fplan
            with stats.lock:
                stats.hashseed_runs += 1
                if frec.get("escalated"):
                    stats.hashseed_differs += 1
            if frec.get("harness_error"):
                harness_errors.append(frec["harness_error"])
            return frec

        is_sweep = lambda p: str(p["run"]).startswith("sweep-")
        is_matrix = lambda p: str(p["run"]).startswith("matrix-")
        order = [i for i, p in enumerate(plans) if is_matrix(p)] + [i for i, p in enumerate(plans) if is_sweep(p)] + [i for i, p in enumerate(plans) if not is_matrix(p) and not is_sweep(p)]
        n_hs = {"quick": (96, 32), "thorough": (1024, 256)}[tier]
        with ThreadPoolExecutor(jobs) as ex:
            futs = {ix: ex.submit(process, ix) for ix in order}
            sess_f = [ex.submit(do_session, sp) for sp in splans]
            head_f = [ex.submit(do_header, c) for c in hcases] + [ex.submit(do_concurrent, cp) for cp in cplans] + [ex.submit(do_edge, c) for c in ecases]
            sweep_ix = [i for i, p in enumerate(plans) if is_sweep(p)]
            for ix in sweep_ix:
                futs[ix].result()
            var_f = []
            for k, (ix, plan, tres, tdata) in enumerate(sorted(sweep_jobs, key=lambda j: j[0])):
                variants = _plan.sweep_variants(plan, _env.footprint(tres), tier)
                stats.sweep_variants += len(variants)
                say("  sweep %s: %d fault variants over %d input files, %d output bytes, %d steps" % (plan["run"], len(variants), len(tres["opened"]), tres["out_len"], tres["steps"]))
                var_f.append((ix, [ex.submit(sweep_variant, v, plan, tres, tdata) for v in variants]))
                if k < len(n_hs):
                    var_f.append((ix, [ex.submit(hash_variant, hs, plan, tres, tdata) for hs in range(n_hs[k])]))
            done = 0
            for ix in order:
                futs[ix].result()
                done += 1
                if done % 50 == 0:
                    say("  ... %d/%d plans (%.0f s)" % (done, len(plans), _perf() - t0))
            for ix, fl in var_f:
                records[ix].extend(f.result() for f in fl)
            for f in sess_f + head_f:
                records.append(f.result())
        say("  %d plans, %d sweep variants, hash-seed sweep %d interpreters (%d with different bytes), %d sessions / %d invocations, %d concurrent interleavings, %d stand-alone header compiles (%.0f s)" % (
            len(plans), stats.sweep_variants, stats.hashseed_runs, stats.hashseed_differs, stats.sessions, stats.session_invocations, stats.concurrent, stats.header_alone, _perf() - t0))
        stats.sim_runs = ctx.pool.runs

        if harness_errors:
            say("HARNESS ERROR (compiler could not be run / probe timed out): no verdict")
            say(json.dumps(harness_errors[0])[:800])
            write_evidence(tier, seed, t0, ctx, stats, cov, det, exitm, [], [], cfg, selftest_failed=True)
            return 2

        # -- 2. violations: group by root cause, minimise, gate, write replay files -----------------
        groups = {}
        for recs in records:
            for rec in recs:
                for v in rec["violations"]:
                    g = groups.setdefault(v["sig"], {"class": v["class"], "sig": v["sig"], "count": 0, "first": None})
                    g["count"] += 1
                    if g["first"] is None:
                        g["first"] = (rec["_case"], v)
        known = load_known()
        reported = []
        known_hits = []
        gate_failed = False
        if groups:
            say("%d violating executions in %d root-cause groups" % (sum(g["count"] for g in groups.values()), len(groups)))
        for gi, sig in enumerate(sorted(groups)):
            g = groups[sig]
            case, v = g["first"]
            kf = match_known(known, g["class"], sig, v)
            if kf is not None:
                known_hits.append((kf, g))
                continue
            if gi < cfg["min_groups"]:
                mini = _minimise.Minimiser(ctx, g["class"], sig, budget=cfg["min_budget"], jobs=max(2, jobs // 2), hint=v.get("detail"))
                mcase, final = mini.run(case)
                if final is None:  # should not happen: the un-minimised case failed a moment ago
                    mcase, final = case, _check.evaluate_case(ctx, case)
                info = {"evaluations": mini.evals, "steps": mini.steps}
            else:
                mcase, final = case, _check.evaluate_case(ctx, case)
                info = {"evaluations": 0, "steps": ["not minimised: group budget exhausted"]}
            path, ok = write_and_gate_replay(ctx, tree, g, mcase, case, final, info)
            if not ok:
                gate_failed = True
            reported.append({"class": g["class"], "sig": sig, "count": g["count"], "replay": path, "minimisation": info})
        if gate_failed:
            say("REPLAY GATE FAILED: a violation did not reproduce identically; simulator nondeterminism, not a verdict")
            write_evidence(tier, seed, t0, ctx, stats, cov, det, exitm, reported, known_hits, cfg, selftest_failed=True)
            return 2
        if stats.inconclusive:
            say("note: %d plan(s) inconclusive (both packagings reject the probe under the same toolchain, or the tool tried to write into the repository); first: %s" % (len(stats.inconclusive), json.dumps(stats.inconclusive[0])[:500]))
        for kf, g in known_hits:
            say("KNOWN-FINDING: property=%s %s (%d executions; class %s)" % (PROPERTY, kf["what"], g["count"], g["class"]))
        for r in reported:
            say("VIOLATION property=%s replay=%s" % (PROPERTY, r["replay"]))
            say("  class=%s executions=%d sig=%s" % (r["class"], r["count"], r["sig"]))
        write_evidence(tier, seed, t0, ctx, stats, cov, det, exitm, reported, known_hits, cfg, records=records, plans=plans)
        say("done in %.1f s: %d simulated generator executions (%d fault-free, %d faulty), %d builds (+%d cached), %d violations" % (_perf() - t0, ctx.pool.runs, stats.fault_free, stats.faulty, ctx.builder.n_builds, ctx.builder.n_cache_hits, len(reported)))
        return 1 if reported else 0
    finally:
        ctx.pool.close()
        scratch.cleanup()


# ------------------------------------------------------------------------------------------------
# known findings, replay files, gates


def load_known():
    try:
        with open(KNOWN) as f:
            return json.load(f).get("findings", [])
    except FileNotFoundError:
        return []


def match_known(known, vclass, sig, v):
    for k in known:
        if k.get("property") != PROPERTY or k.get("status") != "open":
            continue  # "fixed" entries suppress nothing
        if k.get("class") != vclass:
            continue
        if re.search(k["match"], sig):
            return k
    return None


def write_and_gate_replay(ctx, tree, g, mcase, original, final, info):
    os.makedirs(REPLAYS, exist_ok=True)
    viol = [v for v in final["violations"] if v["class"] == g["class"] and v["sig"] == g["sig"]]
    v = viol[0] if viol else {"class": g["class"], "sig": g["sig"], "detail": {}}
    # re-execute once more with the event log, in this process (gate 1)
    again = _check.evaluate_case(ctx, mcase, want_events=True)
    same = again["trace_hashes"] == final["trace_hashes"] and any(x["class"] == g["class"] and x["sig"] == g["sig"] for x in again["violations"])
    if again.get("session"):
        events = [st.get("events") for st in again["session"]["steps"]]
    else:
        events = (again.get("faulty") or again["twin"]).get("events")
    doc = {
        "property": PROPERTY,
        "class": g["class"],
        "sig": g["sig"],
        "executions_in_this_group": g["count"],
        "case": mcase,
        "original_case": original,
        "evidence": v["detail"],
        "trace_hashes": final["trace_hashes"],
        "resolved_faults": (final.get("faulty") or {}).get("sim", {}).get("resolved_faults"),
        "events": events,
        "minimisation": info,
        "tree_fingerprint": tree.fingerprint(),
        "step_budget": ctx.step_budget,
        "event_cap": ctx.event_cap,
        "python": sys.executable,
        "replay_cmd": "python3 sim/run.py c20 --replay <this file>",
    }
    th = "".join(final["trace_hashes"])
    import hashlib

    name = "C20-%s-%s.json" % (g["class"], hashlib.sha256((th + g["sig"]).encode()).hexdigest()[:12])
    path = os.path.join(REPLAYS, name)
    with open(path, "w") as f:
        json.dump(doc, f, indent=1, sort_keys=True)
    if not same:
        say("gate 1 (same process) failed for %s" % path)
        return path, False
    # gate 2: fresh interpreter
    e = dict(os.environ)
    e.pop("PYTHONUNBUFFERED", None)
    p = subprocess.run([sys.executable, "-B", os.path.abspath(__file__), "c20", "--replay", path, "--json"], cwd=VERIF, env=e, stdout=subprocess.PIPE, stderr=subprocess.PIPE, timeout=3600)
    try:
        out = json.loads(p.stdout.decode().strip().splitlines()[-1])
    except Exception:
        say("gate 2 (fresh interpreter) produced no verdict for %s: rc=%s %s" % (path, p.returncode, p.stderr.decode()[-400:]))
        return path, False
    if not out.get("reproduced") or out.get("trace_hashes") != final["trace_hashes"]:
        say("gate 2 (fresh interpreter) did not reproduce %s: %s" % (path, json.dumps(out)[:400]))
        return path, False
    return path, True


def replay(path, as_json=False, jobs=4):
    with open(path) as f:
        doc = json.load(f)
    scratch = Scratch()
    case = doc["case"]
    seeds = {case.get("hashseed", 0)} | {inv.get("hashseed", 0) for inv in case.get("session", []) + case.get("concurrent", [])}
    ctx = make_context(jobs, scratch, hashseeds=tuple(sorted(seeds)))
    ctx.step_budget = int(doc.get("step_budget") or ctx.step_budget)
    ctx.event_cap = int(doc.get("event_cap") or ctx.event_cap)
    try:
        same_tree = ctx.tree.fingerprint() == doc.get("tree_fingerprint")
        ev = _check.evaluate_case(ctx, case, want_events=True)
        hit = [v for v in ev["violations"] if v["class"] == doc["class"] and v["sig"] == doc["sig"]]
        other = [v for v in ev["violations"] if v not in hit]
        out = {
            "reproduced": bool(hit),
            "class": doc["class"],
            "same_tree_as_recorded": same_tree,
            "trace_hashes": ev["trace_hashes"],
            "trace_hashes_match": ev["trace_hashes"] == doc.get("trace_hashes"),
            "other_violations": [v["class"] for v in other],
        }
        if as_json:
            print(json.dumps(out), flush=True)
        else:
            say("replay %s" % path)
            say("  tree %s the one recorded" % ("is" if same_tree else "is NOT"))
            say("  trace hashes %s" % ("match" if out["trace_hashes_match"] else "differ (expected when the tree changed)"))
            for v in hit + other:
                say("  %s: %s" % (v["class"], json.dumps(v["detail"])[:1500]))
            if hit:
                say("VIOLATION property=%s replay=%s" % (PROPERTY, path))
            else:
                say("  not reproduced on this tree")
        return 1 if hit else 0
    finally:
        ctx.pool.close()
        scratch.cleanup()


# ------------------------------------------------------------------------------------------------
# evidence


def tool_line_coverage(stats):
    try:
        exe = _env.executable_lines(_tree.tool_path())
    except Exception as e:  # measurement only
        return {"error": repr(e)}
    hit = exe & stats.tool_lines
    return {"executable_lines": len(exe), "reached": len(hit), "not_reached": sorted(exe - hit)[:40]}


def write_evidence(tier, seed, t0, ctx, stats, cov, det, exitm, reported, known_hits, cfg, records=None, plans=None, selftest_failed=False):
    wall = _perf() - t0
    samples = []
    if records and plans:
        picks = [0, len(plans) // 2, len(plans) - 1]
        for ix in picks:
            recs = records[ix]
            if not recs:
                continue
            p = plans[ix]
            s = {"plan": {k: p[k] for k in ("run", "hashseed", "selection", "env", "toolchain", "probe")}, "fault_free": {"status": recs[0]["sim"]["status"], "steps": recs[0]["sim"]["steps"], "out_len": recs[0]["sim"]["out_len"], "oracle": (recs[0].get("oracle") or {}).get("class") or "twin builds agree", "trace_hash": recs[0]["sim"]["trace_hash"][:16]}, "faulty": []}
            for fr in recs[1:4]:
                s["faulty"].append({"faults": fr["sim"]["resolved_faults"], "git": fr["_case"]["env"]["git"], "status": fr["sim"]["status"], "delivered": len(fr["sim"]["delivered"]), "outcome": fr.get("outcome") or [v["class"] for v in fr["violations"]]})
            samples.append(s)
    if records and plans:
        for recs in records[len(plans):len(plans) + 2]:
            sr = recs[0]
            if sr.get("kind") == "session":
                samples.append({"session": sr["run"], "invocations": [{"selection": inv["selection"], "touched": inv["env"].get("touched"), "status": st["status"], "outcome": st.get("outcome"), "overlay_files": st.get("overlay_files")} for inv, st in zip(sr["_case"]["session"], sr["steps"])], "violations": [v["class"] for v in sr["violations"]]})
    if not samples:
        samples = [{"note": "self-test failed before any plan was judged" if selftest_failed else "no plan was judged"}]
    c = cov.summary()
    runs = ctx.pool.runs
    doc = {
        "property_id": PROPERTY,
        "tier": tier,
        "seed": seed,
        "level": "exploration",
        "coverage": {
            "evaluations": max(1, runs) if not selftest_failed else max(1, runs),
            "distinct_nontrivial": c["distinct_nontrivial"],
            "rule": "evaluations = simulated executions of the real tools/bin/make-single-file (fault-free + faulty + self-test). distinct_nontrivial = number of distinct (transitive closure set, emission order of file bodies) pairs whose generated header went through the build/compare oracle, counting only selections with at least one unit, constant or extra main file beyond what au.hh pulls in; emission order is recovered from the generated bytes by locating a line unique to each closure file.",
            "samples": samples,
            "exhaustive": False,
            "fault_free_plans": stats.fault_free,
            "faulty_executions": stats.faulty,
            "systematic_sweep_fault_variants": stats.sweep_variants,
            "standalone_header_compiles": stats.header_alone,
            "hashseed_sweep": {"interpreters": stats.hashseed_runs, "with_different_bytes": stats.hashseed_differs},
            "tool_line_coverage": tool_line_coverage(stats),
            "edge_programs": {"programs": stats.edge_programs, "outcomes": dict(sorted(stats.edge_outcomes.items()))},
            "concurrent_pairs": {"interleavings": stats.concurrent, "outcomes": dict(sorted(stats.concurrent_outcomes.items()))},
            "sessions": {"sessions": stats.sessions, "invocations": stats.session_invocations, "outcomes": dict(sorted(stats.session_outcomes.items()))},
            "runs_per_hour": int(runs / wall * 3600) if wall > 0 else 0,
            "builds": ctx.builder.n_builds,
            "build_cache_hits": ctx.builder.n_cache_hits,
            "seeds": {"VERIF_SEED": seed, "plan_indices": [0, cfg["plans"] - 1], "spine": bool(cfg["spine"])},
            "fault_kinds": {"planned": dict(sorted(stats.faults_planned.items())), "delivered": dict(sorted(stats.faults_delivered.items()))},
            "faulty_runs_with_only_handled_faults_delivered": stats.handled_only_runs,
            "faulty_runs_with_unhandled_faults_delivered": stats.unhandled_runs,
            "faulty_outcomes": dict(sorted(stats.outcomes.items())),
            "escalated_to_build_oracle": stats.escalated,
            "probes": dict(sorted(stats.probes.items())),
            "environment_knobs": {"stdout_mode": stats.stdout_modes, "locale_encoding": stats.encodings, "clock_year": stats.clocks, "hashseed": stats.hashseeds, "git_outcome": stats.git_outcomes},
            "toolchain_histogram": dict(sorted(stats.toolchains.items())),
            "order_coverage": c,
            "max_steps": stats.max_steps,
            "step_budget": ctx.step_budget,
            "inconclusive": stats.inconclusive[:20],
            "inconclusive_count": len(stats.inconclusive),
            "determinism_selftest": {"plans": det["plans"], "executions": det["executions"], "divergences": len(det["divergences"]), "hashseed_sensitive_executions": det["hashseed_sensitive"]},
            "exit_model_validation": exitm,
            "simulated_time": "the system has no timers; one or two clock reads per run, instants sampled from years %s" % sorted(stats.clocks),
            "components": {
                "real": ["tools/bin/make-single-file (runpy, from the working tree)", "header contents under au/code", "CPython TextIOWrapper/BufferedWriter over the simulated fd 1", "g++-12 / clang++-14, linker, probe binaries"],
                "stub": ["os.listdir / os.scandir (order, stray entries, errors)", "open() of project files (errors at open, after k lines)", "subprocess.Popen for git (planned outcome)", "datetime.now / time.time (simulated instants)", "fd 1 (short writes, errors at a byte offset, failing final flush)", "process exit (model validated against the real interpreter each run)"],
            },
            "violations": [{"class": r["class"], "sig": r["sig"], "executions": r["count"], "replay": r["replay"]} for r in reported],
            "known_findings_hit": [{"what": kf["what"], "executions": g["count"]} for kf, g in known_hits],
            "selftest_failed": selftest_failed,
        },
        "assumptions": [
            "CPython 3.11 semantics of print/TextIOWrapper/BufferedWriter and of process exit status (validated each run against real subprocesses)",
            "g++-12 and clang++-14 are deterministic functions of their inputs",
            "only valid selections (existing unit / constant / header names) and untampered input files are generated",
            "clause (c) of C20 (every header alone, fwd/definition agreement, full compiler x standard matrix) is only sampled through the per-run toolchain and include-order knobs, not claimed",
        ],
        "wall_s": round(wall, 2),
        "violations": len(reported),
    }
    os.makedirs(os.path.dirname(EVIDENCE), exist_ok=True)
    tmp = EVIDENCE + ".tmp"
    with open(tmp, "w") as f:
        json.dump(doc, f, indent=1)
    os.replace(tmp, EVIDENCE)


# ------------------------------------------------------------------------------------------------


def main():
    ap = argparse.ArgumentParser()
    ap.add_argument("what", choices=["c20", "selftest"])
    ap.add_argument("--tier", default=os.environ.get("VERIF_TIER", "quick"), choices=sorted(TIERS))
    ap.add_argument("--replay")
    ap.add_argument("--json", action="store_true")
    ap.add_argument("--jobs", type=int, default=int(os.environ.get("VERIF_JOBS", "0")) or (os.cpu_count() or 4))
    ap.add_argument("--runs", nargs="*", help="only these plan indices (debugging)")
    a = ap.parse_args()
    seed = int(os.environ.get("VERIF_SEED", DEFAULT_SEED))
    if a.replay:
        return replay(a.replay, as_json=a.json, jobs=min(a.jobs, 4))
    if a.what == "selftest":
        scratch = Scratch()
        ctx = make_context(a.jobs, scratch)
        try:
            det = determinism_selftest(ctx, seed, TIERS[a.tier]["det_plans"], a.jobs, a.tier)
            ex = exit_model_validation(ctx)
            say(json.dumps({"determinism": {k: v for k, v in det.items()}, "exit_model": ex}, indent=1))
            return 0 if not det["divergences"] and ex["agreed"] == ex["n"] else 2
        finally:
            ctx.pool.close()
            scratch.cleanup()
    return run_campaign(a.tier, seed, a.jobs, only_runs=set(a.runs) if a.runs else None)


if __name__ == "__main__":
    try:
        rc = main()
    except SystemExit:
        raise
    except BaseException:
        # a crash of the harness is never a verdict about the property
        import traceback

        traceback.print_exc()
        print("HARNESS ERROR: no verdict", flush=True)
        rc = 2
    sys.exit(rc)
