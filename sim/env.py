"""The simulated build machine: every source of nondeterminism and every fault the single-file
generator can meet goes through this module.

One call of `run_plan(plan, twin)` = one simulated execution of tools/bin/make-single-file (real
code, loaded from the working tree with runpy) on a machine whose directory enumeration order,
process spawning (git), wall clock, file open/read outcomes and stdout device are all decided by
the plan.  Nothing in here draws random numbers or reads a real clock: the plan is the only input.
"""
import builtins
import ctypes
import datetime as _datetime_mod
import errno as _errno
import hashlib
import io
import json
import locale as _locale_mod
import os
import random
import runpy
import shutil
import subprocess as _subprocess_mod
import sys
import threading
import time as _time_mod
import traceback

from . import tree as _tree

ERRNOS = {
    "ENOENT": _errno.ENOENT,
    "EACCES": _errno.EACCES,
    "EMFILE": _errno.EMFILE,
    "EIO": _errno.EIO,
    "EPIPE": _errno.EPIPE,
    "ENOSPC": _errno.ENOSPC,
    "EAGAIN": _errno.EAGAIN,
    "EROFS": _errno.EROFS,
    "ENOTDIR": _errno.ENOTDIR,
    "EFBIG": _errno.EFBIG,
    "EDQUOT": _errno.EDQUOT,
}

_TRUE = {
    "listdir": os.listdir, "scandir": os.scandir, "stat": os.stat, "lstat": os.lstat, "access": os.access, "remove": os.remove,
    "mkdir": os.mkdir, "open": builtins.open, "datetime": _datetime_mod.datetime, "date": _datetime_mod.date, "Popen": _subprocess_mod.Popen,
    "time": _time_mod.time, "localtime": _time_mod.localtime, "gmtime": _time_mod.gmtime, "strftime": _time_mod.strftime,
    "readlink": os.readlink, "which": shutil.which, "os_write": os.write, "isatty": os.isatty, "fsync": os.fsync, "getpid": os.getpid,
    "dup": os.dup, "close": os.close, "fstat": os.fstat,
}

DEFAULT_STEP_BUDGET = 2_000_000
DEFAULT_EVENT_CAP = 100_000

# Git outcomes the tool is expected to survive (status 0, valid header) ...
BENIGN_GIT = ("ok", "empty", "exit128", "exit1", "signal")
# ... and those it does not handle (it may fail loudly; it must not succeed with a bad header).
UNHANDLED_GIT = ("enoent", "eacces", "badbytes")


# In a symlink farm (cp -rs, GNU stow, Bazel's sandbox) every file of the tree is a symbolic link to
# the real file kept elsewhere; the simulated farm keeps them under this virtual directory.
FARM_PREFIX = ".farm-target/"


_ALIAS = {}


def repo_alias(repo):
    """A second name for the repository: a real symbolic link (in a scratch directory of this
    worker) pointing at it.  Used when the plan says the tool is started through a symlinked path."""
    if repo not in _ALIAS:
        import atexit
        import tempfile

        d = tempfile.mkdtemp(prefix="au-verif-alias-")
        link = os.path.join(d, "checkout-link")
        os.symlink(repo, link)
        atexit.register(shutil.rmtree, d, True)
        _ALIAS[repo] = link
    return _ALIAS[repo]


class StepBudgetExceeded(BaseException):
    pass


class SimKilled(BaseException):
    """SIGKILL / power loss at a planned step: nothing of the tool runs after this point."""


class EventBudgetExceeded(BaseException):
    pass


def _oserror(name, path=None):
    code = ERRNOS[name]
    if path is None:
        return OSError(code, os.strerror(code))
    return OSError(code, os.strerror(code), path)


# ----------------------------------------------------------------------------------------------
# fault resolution: abstract faults of the plan -> concrete targets, using what the fault-free
# twin of the same plan actually did (files opened, bytes written).  Pure function.


def resolve_faults(faults, twin, bufsize=4096):
    out = []
    for f in faults:
        op = f["op"]
        c = dict(f)
        if op in ("open", "read"):
            opened = twin["opened"]
            if not opened:
                continue
            c["target"] = opened[f["nth"] % len(opened)]
            if op == "read":
                n = max(1, twin["lines"].get(c["target"], 1))
                c["after_lines"] = min(n - 1, (n * f["permille"]) // 1000)
        elif op == "listdir":
            listed = twin["listed"]
            if not listed:
                continue
            c["target"] = listed[f["nth"] % len(listed)]
        elif op == "write":
            n = twin["out_len"]
            where = f.get("where", "permille")
            if where == "permille":
                at = (n * f["permille"]) // 1000
            elif where == "first":
                at = 0
            elif where == "last_byte":
                at = max(0, n - 1)
            elif where == "from_end":
                at = max(0, n - int(f.get("distance", 1)))
            elif where == "last_buffer":
                # somewhere after the last buffer boundary: typically only flushed at exit
                base = (n // bufsize) * bufsize
                at = min(max(0, n - 1), base + (f["permille"] * max(1, n - base)) // 1000)
            elif where == "boundary":
                nb = max(1, n // bufsize)
                at = min(max(0, n - 1), bufsize * (1 + f["permille"] * nb // 1000 % nb))
            else:
                at = f.get("at_byte", 0)
            c["at_byte"] = max(0, min(at, max(0, n - 1)))
        elif op in ("interrupt", "memerror", "kill", "powerloss"):
            n = max(1, twin.get("steps", 1))
            if "after_own_write" in f:
                # right after the k-th time one of the tool's own files reached the disk (a flush
                # of a cache, a log, a staging file): the instant at which a crash leaves a file
                # that is neither the old nor the new one.  A tool that writes no files has no
                # such instant: the fault is dropped.
                ws = twin.get("overlay_write_steps") or []
                if not ws:
                    continue
                c["at_step"] = max(1, min(n, ws[f["after_own_write"] % len(ws)] + int(f.get("delay", 1))))
            else:
                c["at_step"] = max(1, min(n, (n * f["permille"]) // 1000))
        out.append(c)
    return out


def fault_is_handled(f, stdout_mode):
    """Faults the tool (or CPython's buffer layer beneath print) is expected to absorb."""
    if f["op"] == "write" and f["kind"] == "short":
        return stdout_mode in ("block", "line")
    return False


# ----------------------------------------------------------------------------------------------


class SimRawStdout(io.RawIOBase):
    """Simulated fd 1.  Accepts everything, a prefix (short write), or fails, as planned."""

    def __init__(self, sim, tty=False):
        super().__init__()
        self.sim = sim
        self.tty = tty
        self.accepted = bytearray()
        self.calls = 0
        self.pending_error = None  # errno name armed for the next call
        self.dead = None  # persistent errno name
        # A device with a write-back cache (NFS, quota'd cluster file systems): from some byte on
        # write(2) keeps succeeding into the cache, the server refuses the data later, and the
        # error is reported by the next close(2) / fsync(2) on the file - to whoever asks.
        self.deferred = None  # errno name; data from then on is not durable
        self.deferred_reported = False

    def writable(self):
        return True

    def isatty(self):
        return self.tty

    def fileno(self):
        # the simulated fd 1; os.write(1, ...) is routed here as well
        return 1

    def write(self, b):
        self.calls += 1
        data = bytes(b)
        sim = self.sim
        sim.syscall()
        if self.dead:
            sim.deliver_write_error(self.dead, len(self.accepted), repeat=True)
            if self.dead == "EAGAIN":
                return None
            raise _oserror(self.dead)
        if self.pending_error:
            name, persistent, fault = self.pending_error
            self.pending_error = None
            if persistent:
                self.dead = name
            sim.log("write_error_after_short_count", kind=name, at=len(self.accepted))
            if name == "EAGAIN":
                return None
            raise _oserror(name)
        if self.deferred:
            return len(data)  # accepted into the cache; it will never reach the file
        pos = len(self.accepted)
        end = pos + len(data)
        for fault in sim.write_faults:
            if fault.get("_done"):
                continue
            at = fault["at_byte"]
            if not (pos <= at < end):
                continue
            fault["_done"] = True
            if fault["kind"] == "short":
                k = max(1, at - pos)
                self.accepted += data[:k]
                sim.deliver(fault, at=pos, accepted=k, of=len(data))
                return k
            if fault["kind"] == "deferred":
                self.accepted += data[: at - pos]
                self.deferred = fault.get("errno") or "EDQUOT"
                sim.deliver(dict(fault, stage="accepted into the write-back cache; refused later"), at=pos, durable=at - pos, of=len(data))
                return len(data)
            # error kinds
            persistent = bool(fault.get("persistent", True))
            if at > pos:
                # the device takes what fits, the *next* call reports the error
                k = at - pos
                self.accepted += data[:k]
                self.pending_error = (fault["kind"], persistent, fault)
                # The device has started to fail: from the tool's point of view the fault is
                # delivered now (a short count came back), whether or not it ever writes again.
                sim.deliver(dict(fault, stage="short count before the error"), at=pos, accepted=k, of=len(data))
                return k
            if persistent:
                self.dead = fault["kind"]
            sim.deliver(fault, at=pos)
            if fault["kind"] == "EAGAIN":
                # a non-blocking descriptor that cannot take anything right now: write(2) fails
                # with EAGAIN, which io.FileIO.write reports as None - not as an exception
                return None
            raise _oserror(fault["kind"])
        self.accepted += data
        return len(data)


def _sim_raw_descriptor_closed(self, how="close"):
    """close(2) / fsync(2) on a descriptor of the simulated file: reports a pending write-back
    error once."""
    self.sim.syscall()
    if self.deferred and not self.deferred_reported:
        self.deferred_reported = True
        self.sim.log("writeback_error_reported", at=how, kind=self.deferred)
        self.sim.probe("writeback_error_reported_at_" + how)
        raise _oserror(self.deferred)


SimRawStdout.descriptor_closed = _sim_raw_descriptor_closed


def _sim_raw_close(self):
    if self.closed:
        return
    io.RawIOBase.close(self)
    self.descriptor_closed()


SimRawStdout.close = _sim_raw_close


class _Fd1Proxy(io.RawIOBase):
    """Another descriptor-level handle on the simulated fd 1 (closing it does not close the device).
    With `owns_fd` it stands for a descriptor of its own (a dup of fd 1, or fd 1 opened with
    closefd=True): closing it is a close(2) on the file, which is when a write-back error comes out."""

    def __init__(self, raw, owns_fd=False):
        super().__init__()
        self._raw = raw
        self._owns_fd = owns_fd

    def close(self):
        if self.closed:
            return
        try:
            super().close()
        finally:
            if self._owns_fd:
                self._raw.descriptor_closed()

    def writable(self):
        return True

    def fileno(self):
        return 1

    def isatty(self):
        return self._raw.isatty()

    def write(self, b):
        return self._raw.write(b)


class _CountingFile:
    """Proxy around a real text file of the project tree: counts lines handed to the tool and
    raises the planned read error after `fail_after` lines."""

    def __init__(self, sim, rel, f, fault):
        self._sim = sim
        self._rel = rel
        self._f = f
        self._fault = fault
        self._n = 0

    def _tick(self):
        ft = self._fault
        if ft is not None and not ft.get("_done") and self._n >= ft["after_lines"]:
            ft["_done"] = True
            self._sim.deliver(ft, target=self._rel, after_lines=self._n)
            raise _oserror(ft["errno"])

    def __iter__(self):
        return self

    def __next__(self):
        self._tick()
        line = self._f.readline()
        if line == "" or line == b"":
            self._sim.lines[self._rel] = self._n
            raise StopIteration
        self._n += 1
        return line

    def readline(self, *a):
        self._tick()
        line = self._f.readline(*a)
        if line:
            self._n += 1
        else:
            self._sim.lines[self._rel] = self._n
        return line

    def readlines(self, *a):
        return list(self)

    def read(self, *a):
        self._tick()
        data = self._f.read(*a)
        self._n += data.count("\n" if isinstance(data, str) else b"\n")
        ft = self._fault
        if ft is not None and not ft.get("_done") and self._n >= ft["after_lines"]:
            # a whole-file read cannot stop half way: the error surfaces on this call
            ft["_done"] = True
            self._sim.deliver(ft, target=self._rel, after_lines=ft["after_lines"])
            raise _oserror(ft["errno"])
        self._sim.lines[self._rel] = self._n
        return data

    def fileno(self):
        # the real file's descriptor where there is one; for content that exists only in the
        # simulated machine (a CRLF checkout is synthesised in memory) a descriptor number of its
        # own, which the fstat seam knows
        try:
            return self._f.fileno()
        except (AttributeError, OSError, ValueError):
            if getattr(self, "_fake_fd", None) is None:
                node = _Inode(getattr(self, "_synth_bytes", b""))
                node.mtime = int(getattr(self, "_synth_mtime", 0))
                self._sim._next_fake_fd += 1
                self._fake_fd = self._sim._next_fake_fd
                self._sim.overlay_fds[self._fake_fd] = node
            return self._fake_fd

    def close(self):
        self._sim.lines.setdefault(self._rel, self._n)
        return self._f.close()

    def __enter__(self):
        return self

    def __exit__(self, *exc):
        self.close()
        return False

    def __getattr__(self, name):
        return getattr(self._f, name)


class _FakeDirEntry:
    def __init__(self, dirpath, name, is_dir=False):
        self.name = name
        self.path = os.path.join(dirpath, name)
        self._is_dir = is_dir

    def is_dir(self, follow_symlinks=True):
        return self._is_dir

    def is_file(self, follow_symlinks=True):
        return not self._is_dir and not self.name.endswith(".lnk")

    def is_symlink(self):
        return self.name.endswith(".lnk")  # dangling

    def inode(self):
        return 0

    def stat(self, follow_symlinks=True):
        raise _oserror("ENOENT", self.path)

    def __fspath__(self):
        return self.path


class _FarmDirEntry:
    """A regular file of the real tree, presented as what it is in a symlink farm: a link to it."""

    def __init__(self, real):
        self._real = real
        self.name = real.name
        self.path = real.path

    def is_symlink(self):
        return True

    def is_file(self, follow_symlinks=True):
        return bool(follow_symlinks)

    def is_dir(self, follow_symlinks=True):
        return False

    def inode(self):
        return self._real.inode()

    def stat(self, follow_symlinks=True):
        return self._real.stat()

    def __fspath__(self):
        return self.path


class _ScandirResult:
    def __init__(self, entries):
        self._it = iter(entries)

    def __iter__(self):
        return self

    def __next__(self):
        return next(self._it)

    def close(self):
        pass

    def __enter__(self):
        return self

    def __exit__(self, *exc):
        return False


class _FakePopen:
    """The child processes the tool starts are git commands.  `git describe` has a planned outcome;
    `git ls-files` follows the planned state of the tree with respect to git (tracked / not a
    repository / untracked inside an outer repository); anything else goes to the real git."""

    sim = None  # set per run

    def __init__(self, args, **kw):
        sim = type(self).sim
        argv = list(args) if isinstance(args, (list, tuple)) else str(args).split()
        self.args = args
        self.pid = 4242
        prog = os.path.basename(str(argv[0])) if argv else ""
        outcome = sim.plan["env"].get("git", "ok:0.0.0-sim")
        sim.git_calls += 1
        sim.log("spawn", argv=[str(a) for a in argv], outcome=outcome)
        if prog != "git":
            # not something the simulator knows: behave like a machine without that program
            raise FileNotFoundError(_errno.ENOENT, os.strerror(_errno.ENOENT), str(argv[0]))
        self._text = bool(
            kw.get("text") or kw.get("universal_newlines") or kw.get("encoding") or kw.get("errors")
        )
        self._encoding = kw.get("encoding") or sim.encoding
        self._errors = kw.get("errors") or "strict"
        out, rc = b"", 0
        # which git command?  (skip global options such as -C <dir> / -c k=v)
        rest = [str(a) for a in argv[1:]]
        sub = None
        i = 0
        while i < len(rest):
            if rest[i] in ("-C", "-c", "--git-dir", "--work-tree"):
                i += 2
                continue
            if rest[i].startswith("-"):
                i += 1
                continue
            sub = rest[i]
            rest = rest[i + 1:]
            break
        state = sim.plan["env"].get("git_repo", "tracked")
        if outcome == "enoent":
            sim.delivered.append({"op": "git", "kind": "enoent"})
            raise FileNotFoundError(_errno.ENOENT, os.strerror(_errno.ENOENT), "git")
        if outcome == "eacces":
            sim.delivered.append({"op": "git", "kind": "eacces"})
            raise PermissionError(_errno.EACCES, os.strerror(_errno.EACCES), "git")
        if sub == "describe" or sub is None:
            if state == "norepo" and (outcome.startswith("ok:") or outcome == "empty"):
                outcome = "exit128"  # no repository: describe cannot succeed
            if outcome.startswith("ok:"):
                out = outcome[3:].encode("utf-8") + b"\n"
            elif outcome == "empty":
                out = b""
            elif outcome == "exit128":
                rc = 128
                sim.probe("git_nonzero_exit")
            elif outcome == "exit1":
                rc = 1
                sim.probe("git_nonzero_exit")
            elif outcome == "signal":
                rc = -11
                sim.probe("git_nonzero_exit")
            elif outcome == "badbytes":
                out = b"v0.4.1-\xff\xfe-dirty\n"
                sim.delivered.append({"op": "git", "kind": "badbytes"})
        elif sub == "ls-files":
            # a small model of the three states a source tree can be in with respect to git
            sim.probe("git_ls_files_" + state)
            if state == "norepo":
                rc = 128
            elif state == "untracked":
                out = b""  # inside some outer repository that does not track these files
            else:
                sep = b"\0" if "-z" in rest else b"\n"
                specs = rest[rest.index("--") + 1:] if "--" in rest else [a for a in rest if not a.startswith("-")]
                names = []
                for spec in specs or ["."]:
                    names += sim.tracked_files(spec)
                out = b"".join(n.encode("utf-8") + sep for n in sorted(set(names)))
        elif sub == "rev-parse" and any(a in rest for a in ("--show-toplevel", "--show-prefix", "--show-cdup", "--is-inside-work-tree", "--git-dir")):
            # where the enclosing work tree is: the tree itself (a clone), nowhere (an exported
            # tarball), or a directory further up (the sources vendored into a bigger repository)
            sim.probe("git_rev_parse_" + state)
            if state == "norepo":
                rc = 128
            else:
                top = sim.repo if state == "tracked" else os.path.dirname(os.path.dirname(sim.repo)) or "/"
                prefix = os.path.relpath(sim.cwd, top)
                prefix = "" if prefix == "." else prefix + "/"
                answers = {"--show-toplevel": top, "--show-prefix": prefix, "--show-cdup": "".join("../" for _ in prefix.split("/") if _), "--is-inside-work-tree": "true", "--git-dir": os.path.join(top, ".git")}
                out = "".join(answers[a] + "\n" for a in rest if a in answers).encode("utf-8")
        else:
            # any other git command: the real git, in the real repository (a deterministic
            # function of the tree); without a repository it fails like the real one
            sim.probe("git_passthrough")
            if state == "norepo":
                rc = 128
            else:
                real = sim.real_popen(args, **dict(kw, cwd=kw.get("cwd") or sim.repo))
                o, e = real.communicate()
                out = o if isinstance(o, bytes) else (o or "").encode("utf-8")
                rc = real.returncode
        self._out = out
        self._rc = rc
        self.returncode = None
        want_out = kw.get("stdout") == _subprocess_mod.PIPE
        want_err = kw.get("stderr") == _subprocess_mod.PIPE
        self.stdout = io.BytesIO(out) if want_out else None
        self.stderr = io.BytesIO(b"") if want_err else None
        self.stdin = None
        self._want_out = want_out
        self._want_err = want_err

    def _conv(self, b):
        if self._text:
            return b.decode(self._encoding, self._errors)
        return b

    def communicate(self, input=None, timeout=None):
        self.returncode = self._rc
        return (
            self._conv(self._out) if self._want_out else None,
            self._conv(b"") if self._want_err else None,
        )

    def poll(self):
        self.returncode = self._rc
        return self._rc

    def wait(self, timeout=None):
        self.returncode = self._rc
        return self._rc

    def kill(self):
        pass

    terminate = kill

    def __enter__(self):
        return self

    def __exit__(self, *exc):
        return False


class _Inode:
    """One file created or rewritten by the tool.  Like a real inode it is shared by every handle
    that has it open, and it survives a rename."""

    __slots__ = ("data", "mtime")

    def __init__(self, data=b""):
        self.data = bytearray(data)
        self.mtime = 0


class Overlay:
    """Files the tool itself creates, modifies or deletes.  Nothing the tool writes ever reaches
    the real file system; within one *session* (a sequence of invocations on the same simulated
    machine, or two invocations overlapping in time) what one invocation wrote is what the other
    finds."""

    def __init__(self):
        self.inodes = {}  # absolute path -> _Inode
        self.removed = set()
        self.dirs = set()
        self.tick = 0

    @property
    def files(self):
        return {p: bytes(i.data) for p, i in self.inodes.items()}

    def stamp(self, inode):
        self.tick += 1
        inode.mtime = 1_900_000_000 + self.tick

    def snapshot(self):
        return ({p: bytes(i.data) for p, i in self.inodes.items()}, {p: i.mtime for p, i in self.inodes.items()}, set(self.removed), set(self.dirs))

    def restore(self, snap):
        files, mtimes, removed, dirs = snap
        self.inodes = {}
        for p, b in files.items():
            n = _Inode(b)
            n.mtime = mtimes.get(p, 0)
            self.inodes[p] = n
        self.removed = set(removed)
        self.dirs = set(dirs)

    def digest(self):
        h = hashlib.sha256()
        for k in sorted(self.inodes):
            h.update(k.encode())
            h.update(hashlib.sha256(bytes(self.inodes[k].data)).digest())
        for k in sorted(self.removed):
            h.update(b"-" + k.encode())
        return h.hexdigest()[:16]


class _OverlayRaw(io.RawIOBase):
    """The 'file descriptor' of an overlay file: unbuffered reads and writes on the shared inode.
    CPython's real BufferedReader / BufferedWriter / BufferedRandom / TextIOWrapper sit on top of
    it, so what is in a Python-level buffer and what has reached the 'disk' are told apart exactly
    as for a real file.  Every read and write is a simulated system call (a point at which another
    process may run)."""

    def __init__(self, sim, inode, readable, writable, append):
        super().__init__()
        self._sim = sim
        self._inode = inode
        self._r = readable
        self._w = writable
        self._append = append
        self._pos = 0
        self._fd = None

    def fileno(self):
        # a descriptor number of its own, so that the tool can fsync() its file
        if self._fd is None:
            self._sim._next_fake_fd += 1
            self._fd = self._sim._next_fake_fd
            self._sim.overlay_fds[self._fd] = self._inode
        return self._fd

    def readable(self):
        return self._r

    def writable(self):
        return self._w

    def seekable(self):
        return True

    def readinto(self, b):
        self._sim.syscall()
        d = self._inode.data
        n = max(0, min(len(b), len(d) - self._pos))
        b[:n] = d[self._pos:self._pos + n]
        self._pos += n
        return n

    def write(self, b):
        self._sim.syscall()
        self._sim.overlay_write_steps.append(self._sim.steps)
        data = bytes(b)
        d = self._inode.data
        if self._append:
            self._pos = len(d)
        if self._pos > len(d):
            d.extend(b"\0" * (self._pos - len(d)))
        d[self._pos:self._pos + len(data)] = data
        self._pos += len(data)
        self._sim.overlay.stamp(self._inode)
        return len(data)

    def seek(self, off, whence=0):
        if whence == 0:
            self._pos = off
        elif whence == 1:
            self._pos += off
        else:
            self._pos = len(self._inode.data) + off
        self._pos = max(0, self._pos)
        return self._pos

    def tell(self):
        return self._pos

    def truncate(self, size=None):
        size = self._pos if size is None else size
        del self._inode.data[size:]
        return size


class _SimStat:
    """A stat result with some fields replaced (touched files, overlay files)."""

    def __init__(self, real, **over):
        self._real = real
        self._over = over

    def __getattr__(self, k):
        o = self.__dict__["_over"]
        if k in o:
            return o[k]
        return getattr(self.__dict__["_real"], k)

    def __getitem__(self, i):
        names = ("st_mode", "st_ino", "st_dev", "st_nlink", "st_uid", "st_gid", "st_size", "st_atime", "st_mtime", "st_ctime")
        v = getattr(self, names[i])
        return int(v)


class Sim:
    def __init__(self, plan, twin=None, overlay=None, step_budget=DEFAULT_STEP_BUDGET, event_cap=DEFAULT_EVENT_CAP):
        self.plan = plan
        self.repo = os.path.realpath(_tree.REPO)
        self.tool = os.path.realpath(_tree.tool_path())
        self.tool_norm = os.path.normpath(os.path.join(self.repo, _tree.TOOL_REL))
        self.alias = repo_alias(self.repo) if plan["env"].get("invoked_via_symlink") else None
        self.step_budget = step_budget
        self.event_cap = event_cap
        self.events = []
        self.seq = 0
        self.steps = 0
        self.delivered = []
        self.probes = {}
        self.opened = []
        self.lines = {}
        self.listed = []
        self.clock_reads = 0
        self.git_calls = 0
        self.repo_writes = []
        self.lines_hit = set()
        self.open_writers = []
        self.raw_stdout = None
        self.yields = 0
        self.overlay_write_steps = []  # step numbers at which the tool's own files reached "disk"
        self.synced_files = set()  # overlay files the tool has fsync()ed (not tracked per byte)
        self.overlay_fds = {}  # fake descriptor number -> inode, for fsync() of the tool's own files
        self.synced_inodes = set()
        self.pause_at = None
        self.parked = None
        self.resume = None
        self.overlay = overlay if overlay is not None else Overlay()
        self.access_count = {}
        faults = plan.get("faults") or []
        if faults and twin is None:
            raise ValueError("a faulty plan needs the fault-free twin's footprint")
        self.bufsize = int(plan["env"].get("stdout_bufsize", 4096))
        self.fd1_dups = set()  # fake descriptor numbers handed out by the dup() seam
        self._next_fake_fd = 1000
        # the locale's text encoding: what open() without an encoding argument, sys.stdout and
        # text-mode pipes use (UTF-8 almost everywhere; cp1252 on Windows, ISO-8859-x on legacy
        # set-ups, ASCII in a C locale with the UTF-8 coercion switched off)
        self.encoding = plan["env"].get("encoding") or "utf-8"
        self.faults = resolve_faults(faults, twin, self.bufsize) if faults else []
        # (Short and refused writes are injected whatever the buffering of sys.stdout.  With an
        # unbuffered sys.stdout - python -u, PYTHONUNBUFFERED=1 - CPython's text layer hands each
        # piece straight to the descriptor and ignores the count that comes back, so nothing below
        # the tool absorbs them: the tool has to, or must fail loudly.)
        self.write_faults = [f for f in self.faults if f["op"] == "write"]
        self.step_faults = [f for f in self.faults if f["op"] in ("interrupt", "memerror", "kill", "powerloss")]
        # what the tool's own files looked like when this process started (for `powerloss`)
        self._files_at_start = {p: bytes(i.data) for p, i in self.overlay.inodes.items()}
        self.kill_snapshot = None
        self.next_step_fault = None
        self.arm_step_faults()

    # -- simulated system calls: the points at which another process may be scheduled -----------
    def syscall(self):
        self.yields += 1
        if self.pause_at is not None and self.yields == self.pause_at and self.parked is not None:
            self.parked.set()
            self.resume.wait()

    # -- log -----------------------------------------------------------------------------------
    def log(self, op, **kw):
        self.syscall()
        self.seq += 1
        if self.seq > self.event_cap:
            raise EventBudgetExceeded()
        ev = {"seq": self.seq, "op": op}
        ev.update(kw)
        self.events.append(ev)

    def probe(self, name):
        self.probes[name] = self.probes.get(name, 0) + 1

    def deliver(self, fault, **kw):
        pub = {k: v for k, v in fault.items() if not k.startswith("_")}
        self.delivered.append(pub)
        self.log("fault", fault=pub, **kw)

    def deliver_write_error(self, name, at, repeat=False):
        self.probe("write_error_repeated")

    # -- paths ---------------------------------------------------------------------------------
    def relproj(self, path):
        """Path relative to the repo if it is a project input (not the tool itself), else None."""
        try:
            p = os.fspath(path)
        except TypeError:
            return None
        if isinstance(p, bytes):
            p = os.fsdecode(p)
        ap = os.path.normpath(os.path.join(self.cwd, p))
        if self.alias and (ap == self.alias or ap.startswith(self.alias + os.sep)):
            ap = self.repo + ap[len(self.alias):]  # the same tree under its other name
        if ap == self.repo:
            return "."
        if not ap.startswith(self.repo + os.sep):
            return None
        if ap == self.tool or ap == self.tool_norm:
            return None
        rel = ap[len(self.repo) + 1:]
        if rel.startswith(FARM_PREFIX):
            rel = rel[len(FARM_PREFIX):]  # where the symlinks of a symlink farm point to
        return rel

    def fault_for(self, op, rel):
        for f in self.faults:
            if f["op"] == op and f.get("target") == rel and not f.get("_done"):
                return f
        return None

    def tracked_files(self, spec):
        """What `git ls-files -- <spec>` prints for a fully tracked tree: every file below spec,
        relative to the working directory, in the spelling git uses."""
        top = os.path.normpath(os.path.join(self.cwd, spec))
        out = []

        def walk(d):
            try:
                with self.real_scandir(d) as it:
                    ents = sorted(it, key=lambda e: e.name)
            except OSError:
                return
            for e in ents:
                if e.is_dir(follow_symlinks=False):
                    if e.name not in (".git", "_build"):
                        walk(e.path)
                else:
                    out.append(os.path.relpath(e.path, self.cwd))

        if os.path.isdir(top):
            walk(top)
        elif os.path.lexists(top):
            out.append(os.path.relpath(top, self.cwd))
        return out

    def realpath_of(self, path):
        """The real file behind a path the tool uses (identical except for farm targets)."""
        p = os.fspath(path)
        if isinstance(p, bytes):
            p = os.fsdecode(p)
        ap = os.path.normpath(os.path.join(self.cwd, p))
        if self.alias and ap.startswith(self.alias + os.sep):
            ap = self.repo + ap[len(self.alias):]
        marker = self.repo + os.sep + FARM_PREFIX
        if ap.startswith(marker):
            return self.repo + os.sep + ap[len(marker):], True
        return path, False

    def farm_link(self, path):
        """In a symlink farm: is this project path (a regular file in reality) presented as a link?"""
        if not self.plan["env"].get("symlink_farm"):
            return False
        rp, is_target = self.realpath_of(path)
        if is_target:
            return False
        try:
            import stat as _stat

            return _stat.S_ISREG(self.real_lstat(rp).st_mode)
        except OSError:
            return False

    def sim_readlink(self, path, *a, **kw):
        rel = self.relproj(path) if not isinstance(path, int) else None
        if rel is not None and self.farm_link(path):
            self.log("readlink", file=rel)
            return os.path.join(self.repo, FARM_PREFIX + rel)
        return _TRUE["readlink"](path, *a, **kw)

    def touch(self, rel):
        """Count an access (stat or open) to a project path; returns its 0-based index."""
        n = self.access_count.get(rel, 0)
        self.access_count[rel] = n + 1
        return n

    def missing(self, rel, access_index):
        """The simulated file system is coherent: a file that is missing (open fault ENOENT) is
        missing for stat/exists/isfile/access as well, from its `from_access`-th access on."""
        for f in self.faults:
            if f["op"] == "open" and f.get("errno") == "ENOENT" and f.get("target") == rel:
                if access_index >= int(f.get("from_access", 0)):
                    return f
        return None

    def stray(self, rel):
        """A stray directory entry invented by the plan: it must also *exist* for stat/open."""
        d, _, b = rel.rpartition("/")
        return b in self.plan["env"].get("extra_entries", {}).get(d, [])

    def overlay_stat(self, path, rel):
        ap = self.abspath(path)
        ov = self.overlay
        if ap in ov.removed:
            self.log("stat", file=rel, removed_by_tool=True)
            raise _oserror("ENOENT", os.fspath(path))
        if ap in ov.inodes:
            self.log("stat", file=rel, overlay=True)
            m = ov.inodes[ap].mtime
            return _SimStat(self.real_stat(self.tool), st_size=len(ov.inodes[ap].data), st_mtime=float(m), st_mtime_ns=m * 10**9, st_ctime=float(m), st_ctime_ns=m * 10**9, st_mode=0o100644)
        if ap in ov.dirs:
            return self.real_stat(self.repo)
        return None

    def touched(self, rel, res):
        """A header that was touched / re-saved between two invocations: newer mtime, same bytes."""
        bump = self.plan["env"].get("touched", {}).get(rel)
        if not bump:
            return res
        return _SimStat(res, st_mtime=res.st_mtime + bump, st_mtime_ns=res.st_mtime_ns + bump * 10**9)

    def sim_stat(self, path, *a, **kw):
        if isinstance(path, int) and (path in self.overlay_fds or self.is_fd1(path)):
            return self.sim_fstat(path)
        if isinstance(path, int) or kw.get("dir_fd") is not None:
            return self.real_stat(path, *a, **kw)
        rel = self.relproj(path)
        if rel is None or rel == ".":
            ap = self.abspath(path)
            if ap in self.overlay.inodes or ap in self.overlay.removed or ap in self.overlay.dirs:
                return self.overlay_stat(path, ap)
            return self.real_stat(path, *a, **kw)
        if self.stray(rel):
            self.log("stat", file=rel, stray=True)
            if rel.endswith(".lnk"):  # a dangling symbolic link: it is listed, lstat works, stat does not
                raise _oserror("ENOENT", os.fspath(path))
            return self.real_stat(self.repo if rel.endswith(".d") else self.tool)
        ov_res = self.overlay_stat(path, rel)
        if ov_res is not None:
            return ov_res
        i = self.touch(rel)
        f = self.missing(rel, i)
        self.log("stat", file=rel, missing=bool(f))
        if f is not None:
            if not f.get("_delivered"):
                f["_delivered"] = True
                self.deliver(f, target=rel, via="stat")
            raise _oserror("ENOENT", os.fspath(path))
        return self.touched(rel, self.real_stat(self.realpath_of(path)[0], *a, **kw))

    def sim_lstat(self, path, *a, **kw):
        if isinstance(path, int) or kw.get("dir_fd") is not None:
            return self.real_lstat(path, *a, **kw)
        rel = self.relproj(path)
        if rel is None or rel == ".":
            return self.real_lstat(path, *a, **kw)
        if self.stray(rel):
            self.log("lstat", file=rel, stray=True)
            if rel.endswith(".lnk"):
                return _SimStat(self.real_lstat(self.tool), st_mode=0o120777, st_size=11)
            return self.real_lstat(self.repo if rel.endswith(".d") else self.tool)
        ov_res = self.overlay_stat(path, rel)
        if ov_res is not None:
            return ov_res
        i = self.touch(rel)
        f = self.missing(rel, i)
        self.log("lstat", file=rel, missing=bool(f))
        if f is not None:
            if not f.get("_delivered"):
                f["_delivered"] = True
                self.deliver(f, target=rel, via="lstat")
            raise _oserror("ENOENT", os.fspath(path))
        res = self.touched(rel, self.real_lstat(self.realpath_of(path)[0], *a, **kw))
        if self.farm_link(path):
            self.probe("symlink_farm_lstat")
            return _SimStat(res, st_mode=0o120777, st_size=len(self.repo) + len(FARM_PREFIX) + len(rel) + 1)
        return res

    def sim_access(self, path, mode, *a, **kw):
        if isinstance(path, int) or kw.get("dir_fd") is not None:
            return self.real_access(path, mode, *a, **kw)
        rel = self.relproj(path)
        if rel is None or rel == ".":
            return self.real_access(path, mode, *a, **kw)
        i = self.touch(rel)
        f = self.missing(rel, i)
        unreadable = any(g["op"] == "open" and g.get("errno") == "EACCES" and g.get("target") == rel for g in self.faults)
        self.log("access", file=rel, missing=bool(f), unreadable=unreadable)
        if f is not None:
            if not f.get("_delivered"):
                f["_delivered"] = True
                self.deliver(f, target=rel, via="access")
            return False
        if unreadable and (mode & os.R_OK):
            return False
        return self.real_access(self.realpath_of(path)[0], mode, *a, **kw)

    # -- directory enumeration ------------------------------------------------------------------
    def ordered(self, rel, names):
        names = sorted(names)
        env = self.plan["env"]
        key = rel.rstrip("/")
        extra = [e for e in env.get("extra_entries", {}).get(key, []) if e not in names]
        names = sorted(names + extra)
        # every project directory is enumerated in a planned order, not only the two the tool
        # lists today (a refactor to glob/os.walk enumerates others)
        spec = env.get("listdir", {}).get(key) or env.get("listdir_default", "sorted")
        if spec == "sorted":
            order = names
        elif spec == "reversed":
            order = names[::-1]
        elif isinstance(spec, dict) and "shuffle" in spec:
            order = list(names)
            random.Random("%s|%s" % (spec["shuffle"], key)).shuffle(order)
        elif isinstance(spec, dict) and "explicit" in spec:
            first = [n for n in spec["explicit"] if n in names]
            seen = set(first)
            order = first + [n for n in names if n not in seen]
        else:
            raise ValueError("bad listdir spec %r" % (spec,))
        if order != sorted(order):
            self.probe("listdir_nonsorted")
        if extra:
            self.probe("stray_entries")
        return order, set(extra)

    def sim_listdir(self, path="."):
        rel = self.relproj(path)
        if rel is None:
            return self.real_listdir(path)
        rel = rel.rstrip("/")
        if rel not in self.listed:
            self.listed.append(rel)
        f = self.fault_for("listdir", rel)
        if f is not None:
            f["_done"] = True
            self.deliver(f, target=rel)
            raise _oserror(f["errno"], os.fspath(path))
        names = self.real_listdir(path)
        if names and isinstance(names[0], bytes):
            return names
        names = self.with_overlay_entries(path, names)
        order, _ = self.ordered(rel, names)
        self.log("listdir", dir=rel, n=len(order), digest=hashlib.sha256("\0".join(order).encode()).hexdigest()[:12])
        return order

    def with_overlay_entries(self, path, names):
        ap = self.abspath(path)
        ov = self.overlay
        extra = [os.path.basename(f) for f in list(ov.inodes) + list(ov.dirs) if os.path.dirname(f) == ap]
        gone = {os.path.basename(f) for f in ov.removed if os.path.dirname(f) == ap}
        return sorted((set(names) | set(extra)) - gone)

    def sim_scandir(self, path="."):
        rel = self.relproj(path)
        if rel is None:
            return self.real_scandir(path)
        rel = rel.rstrip("/")
        if rel not in self.listed:
            self.listed.append(rel)
        f = self.fault_for("listdir", rel)
        if f is not None:
            f["_done"] = True
            self.deliver(f, target=rel)
            raise _oserror(f["errno"], os.fspath(path))
        with self.real_scandir(path) as it:
            real = {e.name: e for e in it}
        order, extra = self.ordered(rel, self.with_overlay_entries(path, list(real)))
        self.log("scandir", dir=rel, n=len(order), digest=hashlib.sha256("\0".join(order).encode()).hexdigest()[:12])
        farm = bool(self.plan["env"].get("symlink_farm"))
        ents = [(_FarmDirEntry(real[n]) if farm and real[n].is_file(follow_symlinks=False) else real[n]) if n in real else _FakeDirEntry(os.fspath(path), n, n.endswith(".d")) for n in order]
        return _ScandirResult(ents)

    # -- files ---------------------------------------------------------------------------------
    def sim_open(self, file, mode="r", *a, **kw):
        if isinstance(file, int):
            if self.is_fd1(file) and any(c in mode for c in "wa") and self.raw_stdout is not None:
                # a second handle on fd 1 (open(sys.stdout.fileno(), "wb", buffering=0, closefd=False),
                # open(os.dup(1), "w") and the like): it leads to the simulated device too
                closefd = kw.get("closefd", a[4] if len(a) > 4 else True)
                self.log("open_fd1", mode=mode, fd="1" if file == 1 else "dup", closefd=bool(closefd))
                proxy = _Fd1Proxy(self.raw_stdout, owns_fd=bool(closefd))
                if closefd and file in self.fd1_dups:
                    self.fd1_dups.discard(file)  # the file object owns the descriptor now
                buffering = kw.get("buffering", a[0] if a else -1)
                if "b" in mode:
                    return proxy if buffering == 0 else io.BufferedWriter(proxy, self.bufsize if buffering in (-1, 1) else buffering)
                enc = kw.get("encoding") or (a[1] if len(a) > 1 else None) or self.encoding
                return io.TextIOWrapper(io.BufferedWriter(proxy, self.bufsize), encoding=enc, errors=kw.get("errors"), newline=kw.get("newline"), line_buffering=(buffering == 1))
            return self.real_open(file, mode, *a, **kw)
        rel = self.relproj(file)
        ap = self.abspath(file)
        ov = self.overlay
        if any(c in mode for c in "wax+"):
            return self.open_for_write(file, ap, rel, mode, a, kw)
        if ap in ov.removed:
            self.log("open", file=rel or "<outside the tree>", removed_by_tool=True)
            raise _oserror("ENOENT", os.fspath(file))
        if ap in ov.inodes:
            self.log("open", file=rel or "<outside the tree>", overlay=True)
            self.probe("read_own_file")
            return self.wrap_overlay(_OverlayRaw(self, ov.inodes[ap], True, False, False), mode, a, kw)
        if rel is None:
            return self.real_open(file, mode, *a, **kw)
        if self.stray(rel):
            self.log("open", file=rel, stray=True)
            if rel.endswith(".d"):
                raise OSError(_errno.EISDIR, os.strerror(_errno.EISDIR), os.fspath(file))
            if rel.endswith(".lnk"):
                raise _oserror("ENOENT", os.fspath(file))
            return io.BytesIO(b"") if "b" in mode else io.StringIO("")
        first = rel not in self.opened
        if first:
            self.opened.append(rel)
        self.log("open", file=rel)
        i = self.touch(rel)
        f = self.missing(rel, i)
        if f is not None:
            if not f.get("_delivered"):
                f["_delivered"] = True
                self.deliver(f, target=rel, via="open")
            raise _oserror("ENOENT", os.fspath(file))
        f = self.fault_for("open", rel)
        if f is not None and f.get("errno") != "ENOENT":
            f["_done"] = True
            self.deliver(f, target=rel)
            raise _oserror(f["errno"], os.fspath(file))
        if self.plan["env"].get("crlf"):
            # the same tree checked out with core.autocrlf=true: every line ends in \r\n on disk,
            # whichever way the file is opened (text mode translates it back, binary mode and
            # codecs.open do not)
            with self.real_open(self.realpath_of(file)[0], "rb") as bf:
                raw_bytes = bf.read().replace(b"\r\n", b"\n").replace(b"\n", b"\r\n")
            if "b" in mode:
                real = io.BytesIO(raw_bytes)
            else:
                enc = kw.get("encoding") or (a[1] if len(a) > 1 else None) or self.encoding
                real = io.TextIOWrapper(io.BytesIO(raw_bytes), encoding=enc, errors=kw.get("errors"), newline=kw.get("newline"))
            self.probe("crlf_checkout")
            cf = _CountingFile(self, rel, real, self.fault_for("read", rel))
            cf._synth_bytes = raw_bytes
            try:
                cf._synth_mtime = self.real_stat(self.realpath_of(file)[0]).st_mtime
            except OSError:
                cf._synth_mtime = 0
            return cf
        else:
            real = self.real_open(self.realpath_of(file)[0], mode, *a, **kw)
        return _CountingFile(self, rel, real, self.fault_for("read", rel))

    def abspath(self, path):
        try:
            p = os.fspath(path)
        except TypeError:
            return None
        if isinstance(p, bytes):
            p = os.fsdecode(p)
        return os.path.normpath(os.path.join(self.cwd, p))

    def exists_anywhere(self, ap):
        if ap in self.overlay.removed:
            return False
        if ap in self.overlay.inodes or ap in self.overlay.dirs:
            return True
        try:
            self.real_lstat(ap)
            return True
        except OSError:
            return False

    def open_for_write(self, file, ap, rel, mode, a, kw):
        """Writes never reach the real file system: they land in the overlay."""
        ov = self.overlay
        self.log("open_for_write", file=rel or "<outside the tree>", mode=mode)
        self.probe("tool_wrote_a_file")
        if rel is not None:
            self.repo_writes.append(rel)
        if self.plan["env"].get("readonly_tree") and rel is not None:
            raise _oserror("EROFS", os.fspath(file))
        parent = os.path.dirname(ap)
        if not (parent in ov.dirs or os.path.isdir(parent)):
            raise _oserror("ENOENT", os.fspath(file))
        exists = self.exists_anywhere(ap)
        if "x" in mode and exists:
            raise OSError(_errno.EEXIST, os.strerror(_errno.EEXIST), os.fspath(file))
        if "r" in mode and not exists:
            raise _oserror("ENOENT", os.fspath(file))
        inode = ov.inodes.get(ap)
        if inode is None:
            initial = b""
            if exists and ("a" in mode or "r" in mode):
                with self.real_open(ap, "rb") as f:
                    initial = f.read()
            inode = _Inode(initial)
            ov.inodes[ap] = inode
            ov.stamp(inode)
        ov.removed.discard(ap)
        if "w" in mode:
            del inode.data[:]  # O_TRUNC acts on the inode: every other open handle sees it too
            ov.stamp(inode)
        raw = _OverlayRaw(self, inode, "r" in mode or "+" in mode, True, "a" in mode)
        f = self.wrap_overlay(raw, mode, a, kw)
        self.open_writers.append(f)
        return f

    def wrap_overlay(self, raw, mode, a, kw):
        """CPython's own buffered / text layers over the simulated descriptor."""
        buffering = kw.get("buffering", a[0] if a else -1)
        if "b" in mode and buffering == 0:
            return raw
        if raw.readable() and raw.writable():
            buf = io.BufferedRandom(raw)
        elif raw.writable():
            buf = io.BufferedWriter(raw)
        else:
            buf = io.BufferedReader(raw)
        if "b" in mode:
            return buf
        enc = kw.get("encoding") or (a[1] if len(a) > 1 else None) or self.encoding
        return io.TextIOWrapper(buf, encoding=enc, errors=kw.get("errors"), newline=kw.get("newline"), line_buffering=(buffering == 1))

    # -- descriptors that lead to the simulated standard output ----------------------------------
    def is_fd1(self, fd):
        return fd == 1 or fd in self.fd1_dups

    def sim_dup(self, fd, *a, **kw):
        if self.is_fd1(fd):
            self.syscall()
            self._next_fake_fd += 1
            new = self._next_fake_fd
            self.fd1_dups.add(new)
            self.log("dup_fd1", new="dup")
            return new
        return _TRUE["dup"](fd, *a, **kw)

    def sim_close(self, fd):
        if fd in self.fd1_dups:
            self.fd1_dups.discard(fd)
            self.log("close_fd1_dup")
            if self.raw_stdout is not None:
                self.raw_stdout.descriptor_closed()
            return None
        if fd == 1 and self.raw_stdout is not None:
            self.log("close_fd1")
            self.raw_stdout.descriptor_closed()
            return None
        return _TRUE["close"](fd)

    def inode_stat(self, node):
        m = node.mtime
        return _SimStat(self.real_stat(self.tool), st_size=len(node.data), st_mtime=float(m), st_mtime_ns=m * 10**9, st_ctime=float(m), st_ctime_ns=m * 10**9, st_mode=0o100644)

    def sim_fstat(self, fd):
        # descriptors that exist only in the simulated machine: the tool's own files and inputs
        # planted in the overlay (fake numbers), and the simulated standard output
        if fd in self.overlay_fds:
            self.syscall()
            return self.inode_stat(self.overlay_fds[fd])
        if self.is_fd1(fd) and self.raw_stdout is not None:
            return _SimStat(self.real_stat(self.tool), st_size=len(self.raw_stdout.accepted), st_blksize=self.bufsize, st_mode=(0o020620 if self.raw_stdout.tty else 0o100644))
        return _TRUE["fstat"](fd)

    def sim_fsync(self, fd):
        if fd in self.overlay_fds:
            self.syscall()
            self.synced_inodes.add(id(self.overlay_fds[fd]))
            self.log("fsync_own_file")
            return None
        if self.is_fd1(fd) and self.raw_stdout is not None:
            self.log("fsync_fd1")
            self.raw_stdout.descriptor_closed(how="fsync")
            return None
        return _TRUE["fsync"](fd)

    def sim_replace(self, src, dst, *a, **kw):
        s_ap, d_ap = self.abspath(src), self.abspath(dst)
        ov = self.overlay
        self.log("rename", src=self.relproj(src) or "<outside the tree>", dst=self.relproj(dst) or "<outside the tree>")
        if s_ap in ov.inodes:
            ov.inodes[d_ap] = ov.inodes.pop(s_ap)  # the inode moves; open handles keep it
            ov.removed.discard(d_ap)
            return None
        if not self.exists_anywhere(s_ap):
            raise _oserror("ENOENT", os.fspath(src))
        # a real file (e.g. a temporary file made with os.open): its content moves into the overlay
        with self.real_open(s_ap, "rb") as f:
            ov.inodes[d_ap] = _Inode(f.read())
        ov.stamp(ov.inodes[d_ap])
        ov.removed.discard(d_ap)
        if self.relproj(src) is None:
            try:
                self.real_remove(s_ap)
            except OSError:
                pass
        else:
            ov.removed.add(s_ap)
        return None

    def sim_remove(self, path, *a, **kw):
        ap = self.abspath(path)
        ov = self.overlay
        self.log("remove", file=self.relproj(path) or "<outside the tree>")
        if ap in ov.inodes:
            del ov.inodes[ap]
            return None
        if not self.exists_anywhere(ap):
            raise _oserror("ENOENT", os.fspath(path))
        if self.relproj(path) is None:
            return self.real_remove(path, *a, **kw)
        ov.removed.add(ap)  # a project file: hidden from now on, never really deleted
        return None

    def sim_mkdir(self, path, mode=0o777, *a, **kw):
        ap = self.abspath(path)
        self.log("mkdir", dir=self.relproj(path) or "<outside the tree>")
        if self.exists_anywhere(ap):
            raise OSError(_errno.EEXIST, os.strerror(_errno.EEXIST), os.fspath(path))
        if self.relproj(path) is None:
            return self.real_mkdir(path, mode, *a, **kw)
        self.overlay.dirs.add(ap)
        return None

    # -- clock ---------------------------------------------------------------------------------
    def now(self):
        instants = self.plan["env"].get("clock") or ["2026-01-01T00:00:00"]
        i = min(self.clock_reads, len(instants) - 1)
        self.clock_reads += 1
        self.log("clock", read=self.clock_reads, instant=instants[i])
        return self.real_datetime.fromisoformat(instants[i])

    # -- step counting -------------------------------------------------------------------------
    def tracer(self, frame, event, arg):
        if frame.f_code.co_filename != self.tool_filename:
            return None
        return self.local_tracer

    def local_tracer(self, frame, event, arg):
        if event == "line":
            self.steps += 1
            self.lines_hit.add(frame.f_lineno)
            if self.steps > self.step_budget:
                raise StepBudgetExceeded()
            if self.next_step_fault is not None and self.steps >= self.next_step_fault:
                self.fire_step_fault()
        return self.local_tracer

    def arm_step_faults(self):
        pend = [f for f in self.step_faults if not f.get("_done")]
        self.next_step_fault = min((f["at_step"] for f in pend), default=None)

    def fire_step_fault(self):
        for f in sorted(self.step_faults, key=lambda f: f["at_step"]):
            if f.get("_done") or f["at_step"] > self.steps:
                continue
            f["_done"] = True
            self.arm_step_faults()
            self.deliver(f, at_step=self.steps)
            # Raised asynchronously in this very thread (like a signal handler would), not from
            # the trace function itself: an exception escaping a trace function switches tracing
            # off, and the step budget must stay armed for the rest of the run.
            if f["op"] in ("kill", "powerloss"):
                # What is on "disk" at this instant is all that survives: files the tool has
                # closed, plus - for files it still has open - whole 8 KiB blocks of what it wrote
                # (CPython's file buffer; the unflushed tail dies with the process).  Whatever the
                # tool does while the exception unwinds (finally blocks, context managers) would
                # not have happened, so the overlay is put back to this snapshot afterwards.
                # Python-level buffers of files the tool has open have *not* reached the inode and
                # die with the process; everything that has, stays.
                self.kill_snapshot = self.overlay.snapshot()
                if f["op"] == "powerloss":
                    # The machine goes down, not just the process: what the tool wrote during this
                    # run and never fsync()ed is in the page cache.  Of such a file whole 4 KiB
                    # blocks from the start survive (here: all of them but the last, partial one);
                    # a file renamed into place without an fsync keeps its new name all the same.
                    files, mtimes, removed, dirs = self.kill_snapshot
                    files = dict(files)
                    for path, data in list(files.items()):
                        node = self.overlay.inodes.get(path)
                        if self._files_at_start.get(path) != data and path not in self.synced_files and id(node) not in self.synced_inodes:
                            files[path] = data[: (len(data) // 4096) * 4096]
                            self.probe("powerloss_truncated_unsynced_file")
                    self.kill_snapshot = (files, mtimes, removed, dirs)
                if any(not w.closed for w in self.open_writers):
                    self.probe("torn_write_of_tool_file")
                exc = SimKilled
            else:
                exc = KeyboardInterrupt if f["op"] == "interrupt" else MemoryError
            ctypes.pythonapi.PyThreadState_SetAsyncExc(ctypes.c_ulong(threading.get_ident()), ctypes.py_object(exc))
            return

    # -- the run -------------------------------------------------------------------------------
    def run(self):
        plan = self.plan
        sel = plan["selection"]
        env = plan["env"]
        saved = {
            "argv": sys.argv,
            "stdout": sys.stdout,
            "stderr": sys.stderr,
            "cwd": os.getcwd(),
            "listdir": os.listdir,
            "scandir": os.scandir,
            "stat": os.stat,
            "lstat": os.lstat,
            "access": os.access,
            "replace": os.replace,
            "rename": os.rename,
            "remove": os.remove,
            "unlink": os.unlink,
            "mkdir": os.mkdir,
            "open": builtins.open,
            "io_open": io.open,
            "Popen": _subprocess_mod.Popen,
            "datetime": _datetime_mod.datetime,
            "date": _datetime_mod.date,
            "time": _time_mod.time,
            "localtime": _time_mod.localtime,
            "gmtime": _time_mod.gmtime,
            "strftime": _time_mod.strftime,
            "dunder_stdout": sys.__stdout__,
            "dunder_stderr": sys.__stderr__,
            "os_write": os.write,
            "which": shutil.which,
            "getpid": os.getpid,
            "chdir": os.chdir,
            "getcwd": os.getcwd,
            "readlink": os.readlink,
            "isatty": os.isatty,
            "fsync": os.fsync,
            "dup": os.dup,
            "close": os.close,
            "fstat": os.fstat,
            "getpreferredencoding": _locale_mod.getpreferredencoding,
            "getencoding": getattr(_locale_mod, "getencoding", None),
        }
        # the *true* operating-system functions, captured when this module was imported: a second
        # simulated process started while another one is parked must not mistake the first one's
        # interposed functions for the real thing
        self.real_listdir = _TRUE["listdir"]
        self.real_scandir = _TRUE["scandir"]
        self.real_stat = _TRUE["stat"]
        self.real_lstat = _TRUE["lstat"]
        self.real_access = _TRUE["access"]
        self.real_remove = _TRUE["remove"]
        self.real_mkdir = _TRUE["mkdir"]
        self.real_open = _TRUE["open"]
        self.real_datetime = _TRUE["datetime"]
        self.real_popen = _TRUE["Popen"]
        self.cwd = self.repo
        # the path the tool is started by: normally <repo>/tools/bin/..., or the same through a
        # symbolic link somewhere above it (automounted homes, CI workspace links, ~/src -> /data/src)
        self.tool_filename = os.path.join(self.alias, _tree.TOOL_REL) if self.alias else _tree.tool_path()

        sim = self

        class SimDateTime(_TRUE["datetime"]):
            @classmethod
            def now(cls, tz=None):
                t = sim.now()
                return t.replace(tzinfo=tz) if tz is not None else t

            @classmethod
            def utcnow(cls):
                return sim.now()

            @classmethod
            def today(cls):
                return sim.now()

        class SimDate(_TRUE["date"]):
            @classmethod
            def today(cls):
                return sim.now().date()

        class FakePopen(_FakePopen):
            pass

        FakePopen.sim = self

        mode = env.get("stdout_mode", "block")
        # CPython: stdout is strict, except in the C locale (surrogateescape)
        out_errors = "surrogateescape" if self.encoding == "ascii" else "strict"
        raw = SimRawStdout(self, tty=(mode == "line"))
        self.raw_stdout = raw
        if mode == "unbuffered":
            out = io.TextIOWrapper(raw, encoding=self.encoding, errors=out_errors, write_through=True)
        else:
            out = io.TextIOWrapper(
                io.BufferedWriter(raw, self.bufsize),
                encoding=self.encoding,
                errors=out_errors,
                line_buffering=(mode == "line"),
            )
        err = io.StringIO()

        status = None
        hang = False
        exc_name = None
        tb_tail = ""
        argv = [self.tool_filename] + list(sel.get("argv") or argv_of(sel))
        if self.encoding != "utf-8":
            # the command line reaches the process as bytes (UTF-8 ones, from today's shells and
            # build scripts); CPython decodes them with the locale's encoding and surrogateescape
            argv = [a.encode("utf-8", "surrogateescape").decode(self.encoding, "surrogateescape") if not a.isascii() else a for a in argv]
        if env.get("added_unit"):
            # a unit header that was added to the tree since the previous invocation
            from . import addedunit as _au

            for relname, text in _au.files(env["added_unit"]).items():
                ap = os.path.join(self.repo, "au/code", relname)
                node = self.overlay.inodes.get(ap)
                if node is None or bytes(node.data) != text.encode("utf-8"):
                    # new, or replaced by another revision since the previous invocation - with
                    # the time stamp the plan says (tar x / cp -p / rsync -a keep the file's own
                    # time, which may be older than or equal to what was there before)
                    node = self.overlay.inodes[ap] = _Inode(text.encode("utf-8"))
                    node.mtime = _au.mtime_of(env["added_unit"])
                self.overlay.removed.discard(ap)
        if sel.get("user_main"):
            # the user's own header, planted in the simulated file system and given as a main file
            from . import usermain as _um

            node = _Inode(_um.text(_tree_inventory(), sel["user_main"]).encode("utf-8"))
            self.overlay.inodes.setdefault(_um.PATH, node)
            self.overlay.dirs.add(os.path.dirname(_um.PATH))
        self.log("start", argv=argv[1:], stdout_mode=mode, stdout_bufsize=self.bufsize)
        # A simulated process is a fresh interpreter: module-level state of the standard library
        # that a previous run in this worker may have left behind is put back to its initial value.
        import random as _random_mod
        import tempfile as _tempfile_mod

        # The process environment is part of the simulated machine: a fixed base plus whatever the
        # plan sets (SOURCE_DATE_EPOCH, TMPDIR, HOME, LANG, ...).  Restored afterwards.
        saved_environ = dict(os.environ)
        base_env = {"PATH": saved_environ.get("PATH", "/usr/bin:/bin"), "HOME": "/home/sim", "LANG": "C.UTF-8", "USER": "sim", "LOGNAME": "sim"}
        for k in ("PYTHONHASHSEED", "PYTHONDONTWRITEBYTECODE"):
            if k in saved_environ:
                base_env[k] = saved_environ[k]
        for k, v in (env.get("environ") or {}).items():
            if v is None:
                base_env.pop(k, None)
            else:
                base_env[k] = str(v)
        os.environ.clear()
        os.environ.update(base_env)
        _tempfile_mod.tempdir = None  # tempfile.gettempdir() caches its probing
        _random_mod.seed(0x5EED)  # the global PRNG is seeded from the OS at start-up
        try:
            os.chdir(self.repo)
            sys.argv = argv
            sys.stdout = out
            # fd 2 closed when the process started (`2>&-`): CPython sets sys.stderr (and
            # sys.__stderr__) to None; print(..., file=None) then means sys.stdout
            sys.stderr = None if env.get("stderr_closed") else err
            sys.__stderr__ = sys.stderr
            os.listdir = self.sim_listdir
            os.scandir = self.sim_scandir
            os.stat = self.sim_stat
            os.lstat = self.sim_lstat
            os.access = self.sim_access
            os.replace = self.sim_replace
            os.rename = self.sim_replace
            os.remove = self.sim_remove
            os.unlink = self.sim_remove
            os.mkdir = self.sim_mkdir
            builtins.open = self.sim_open
            io.open = self.sim_open
            _subprocess_mod.Popen = FakePopen
            _datetime_mod.datetime = SimDateTime
            _datetime_mod.date = SimDate
            epoch = saved["datetime"](1970, 1, 1)
            _time_mod.time = lambda: (sim.now() - epoch).total_seconds()

            def sim_localtime(secs=None):
                return _TRUE["localtime"](secs) if secs is not None else sim.now().timetuple()

            def sim_gmtime(secs=None):
                return _TRUE["gmtime"](secs) if secs is not None else sim.now().timetuple()

            def sim_strftime(fmt, t=None):
                return _TRUE["strftime"](fmt, t if t is not None else sim.now().timetuple())

            _time_mod.localtime = sim_localtime
            _time_mod.gmtime = sim_gmtime
            _time_mod.strftime = sim_strftime
            # every road to fd 1 leads to the simulated device
            sys.__stdout__ = out

            def sim_os_write(fd, data):
                if sim.is_fd1(fd):
                    n = raw.write(data)
                    if n is None:  # EAGAIN: os.write raises where io.FileIO.write returns None
                        raise BlockingIOError(_errno.EAGAIN, os.strerror(_errno.EAGAIN))
                    return n
                return _TRUE["os_write"](fd, data)

            os.write = sim_os_write

            def sim_which(cmd, *a, **kw):
                # coherent with the planned git outcome: a machine without git has no git on PATH
                if os.path.basename(str(cmd)) == "git" and env.get("git") == "enoent":
                    sim.log("which", cmd=str(cmd), found=False)
                    return None
                return _TRUE["which"](cmd, *a, **kw)

            shutil.which = sim_which
            os.getpid = lambda: 4242  # process identity is not something a result may depend on
            os.readlink = self.sim_readlink

            def sim_chdir(path):
                # the working directory is part of the simulated process: every seam resolves
                # relative paths against it
                new = os.path.normpath(os.path.join(sim.cwd, os.fspath(path)))
                sim.log("chdir", to=sim.relproj(new) or "<outside the tree>")
                saved["chdir"](path)
                sim.cwd = new

            os.chdir = sim_chdir
            os.isatty = lambda fd: (mode == "line") if sim.is_fd1(fd) else _TRUE["isatty"](fd)
            os.fsync = self.sim_fsync
            os.dup = self.sim_dup
            os.close = self.sim_close
            os.fstat = self.sim_fstat
            _locale_mod.getpreferredencoding = lambda do_setlocale=True: sim.encoding
            if saved["getencoding"] is not None:
                _locale_mod.getencoding = lambda: sim.encoding
            sys.settrace(self.tracer)
            try:
                runpy.run_path(self.tool_filename, run_name="__main__")
                status = 0
            except SystemExit as e:
                sys.settrace(None)
                c = e.code
                if c is None:
                    status = 0
                elif isinstance(c, int):
                    status = c & 0xFF
                else:
                    err.write(str(c) + "\n")
                    status = 1
            except StepBudgetExceeded:
                sys.settrace(None)
                hang = True
                exc_name = "StepBudgetExceeded"
            except EventBudgetExceeded:
                sys.settrace(None)
                hang = True
                exc_name = "EventBudgetExceeded"
            except SimKilled:
                sys.settrace(None)
                status = 137
                exc_name = "SimKilled"
            except BaseException as e:  # uncaught exception: CPython prints it and exits 1
                sys.settrace(None)
                status = 130 if isinstance(e, KeyboardInterrupt) else 1
                exc_name = type(e).__name__
                tb_tail = "".join(traceback.format_exception_only(type(e), e)).strip()[-400:]
            finally:
                sys.settrace(None)
            # Interpreter exit, as CPython does it for a script *file* (pythonrun.c):
            #  1. right after the code object has run - whether it returned, raised SystemExit or
            #     raised anything else - flush_io() flushes sys.stdout and *discards* any error;
            #  2. at finalisation sys.stdout is flushed again, and a failure there turns the exit
            #     status into 120.
            # The two are not redundant.  When the text layer still holds a chunk larger than the
            # BufferedWriter (the usual case: chunks are ~8 KiB, the buffer is st_blksize = 4 KiB),
            # step 1 hands it straight to the device; if the device refuses, the chunk is gone, the
            # error is swallowed, step 2 finds nothing left to flush - and the process exits with the
            # status it would have had anyway.  (Validated against the real interpreter with
            # RLIMIT_FSIZE, see run.py: exit_model_validation.)
            if not hang:
                try:
                    out.flush()
                except BaseException as e:
                    self.probe("flush_io_error_swallowed")
                    self.log("flush_io_error_swallowed", error=type(e).__name__)
                try:
                    out.flush()
                except BaseException as e:
                    self.probe("flush_at_exit_failed")
                    self.log("exit_flush_failed", error=type(e).__name__)
                    status = 120
        finally:
            sys.settrace(None)
            _time_mod.time = saved["time"]
            _time_mod.localtime = saved["localtime"]
            _time_mod.gmtime = saved["gmtime"]
            _time_mod.strftime = saved["strftime"]
            sys.__stdout__ = saved["dunder_stdout"]
            sys.__stderr__ = saved["dunder_stderr"]
            os.write = saved["os_write"]
            shutil.which = saved["which"]
            os.getpid = saved["getpid"]
            os.readlink = saved["readlink"]
            os.chdir = saved["chdir"]
            os.isatty = saved["isatty"]
            os.fsync = saved["fsync"]
            os.dup = saved["dup"]
            os.close = saved["close"]
            os.fstat = saved["fstat"]
            _locale_mod.getpreferredencoding = saved["getpreferredencoding"]
            if saved["getencoding"] is not None:
                _locale_mod.getencoding = saved["getencoding"]
            _datetime_mod.date = saved["date"]
            _datetime_mod.datetime = saved["datetime"]
            _subprocess_mod.Popen = saved["Popen"]
            io.open = saved["io_open"]
            builtins.open = saved["open"]
            os.mkdir = saved["mkdir"]
            os.unlink = saved["unlink"]
            os.remove = saved["remove"]
            os.rename = saved["rename"]
            os.replace = saved["replace"]
            os.access = saved["access"]
            os.lstat = saved["lstat"]
            os.stat = saved["stat"]
            os.scandir = saved["scandir"]
            os.listdir = saved["listdir"]
            sys.stderr = saved["stderr"]
            sys.stdout = saved["stdout"]
            sys.argv = saved["argv"]
            os.chdir(saved["cwd"])
            os.environ.clear()
            os.environ.update(saved_environ)
        # Files the tool still had open for writing when it ended: a process that exits (even
        # through an uncaught exception or SIGINT) closes and flushes them.  A killed process does
        # not: the overlay goes back to what was on "disk" at the instant of the kill.
        for w in self.open_writers:
            try:
                if not w.closed:
                    w.close()  # what interpreter shutdown does: flush and close
            except Exception:
                pass
        if self.kill_snapshot is not None:
            self.overlay.restore(self.kill_snapshot)
            status = 137  # whatever the unwinding made of it, the process was killed
        data = bytes(raw.accepted)
        self.log("exit", status=status, hang=hang, out_len=len(data), raw_writes=raw.calls)
        out_sha = hashlib.sha256(data).hexdigest()
        h = hashlib.sha256()
        h.update(json.dumps(self.events, sort_keys=True).encode())
        h.update(out_sha.encode())
        h.update(str(self.steps).encode())
        h.update(self.overlay.digest().encode())
        res = {
            "status": status,
            "hang": hang,
            "exc": exc_name,
            "tb_tail": tb_tail,
            "stderr_tail": err.getvalue()[-600:],
            "steps": self.steps,
            "n_events": len(self.events),
            "events": self.events,
            "out_len": len(data),
            "out_sha": out_sha,
            "raw_writes": raw.calls,
            "delivered": self.delivered,
            "resolved_faults": [{k: v for k, v in f.items() if not k.startswith("_")} for f in self.faults],
            "opened": self.opened,
            "lines": self.lines,
            "listed": self.listed,
            "clock_reads": self.clock_reads,
            "git_calls": self.git_calls,
            "repo_writes": self.repo_writes,
            "lines_hit": sorted(self.lines_hit),
            "yields": self.yields,
            "overlay_write_steps": list(self.overlay_write_steps),
            "overlay_digest": self.overlay.digest(),
            "overlay_files": sorted(self.relproj(f) or f for f in self.overlay.inodes),
            "probes": self.probes,
            "trace_hash": h.hexdigest(),
        }
        return res, data


_INVENTORY = {}


def _tree_inventory():
    if "t" not in _INVENTORY:
        _INVENTORY["t"] = _tree.Tree()
    return _INVENTORY["t"]


def argv_of(sel):
    """Command line for a selection (main files first: argparse cannot take positionals after an
    option that swallows a list).  `opt_order` permutes the options."""
    groups = {}
    if sel.get("units") == "ALL":
        groups["units"] = ["--all-units"]
    elif sel.get("units"):
        groups["units"] = ["--units"] + list(sel["units"])
    if sel.get("constants") == "ALL":
        groups["constants"] = ["--all-constants"]
    elif sel.get("constants"):
        groups["constants"] = ["--constants"] + list(sel["constants"])
    if not sel.get("io", True):
        groups["noio"] = ["--noio"]
    if sel.get("version_id") is not None:
        groups["version"] = ["--version-id", sel["version_id"]]
    order = [k for k in sel.get("opt_order", []) if k in groups]
    order += [k for k in ("units", "constants", "noio", "version") if k in groups and k not in order]
    argv = list(sel.get("main_files") or [])
    if sel.get("user_main"):
        from . import usermain as _um

        argv.append(_um.PATH)
    for k in order:
        argv += groups[k]
    return argv


def run_plan(plan, twin=None, step_budget=DEFAULT_STEP_BUDGET, event_cap=DEFAULT_EVENT_CAP):
    sim = Sim(plan, twin=twin, step_budget=step_budget, event_cap=event_cap)
    return sim.run()


def run_session(invocations, step_budget=DEFAULT_STEP_BUDGET, event_cap=DEFAULT_EVENT_CAP):
    """Several invocations, one after the other, on the same simulated machine: whatever the tool
    wrote during one invocation (cache files, ...) is there for the next."""
    overlay = Overlay()
    out = []
    for inv in invocations:
        twin = None
        if inv.get("faults"):
            fresh = dict(inv, faults=[])
            fres, _ = Sim(fresh, step_budget=step_budget, event_cap=event_cap).run()
            twin = footprint(fres)
        sim = Sim(inv, twin=twin, overlay=overlay, step_budget=step_budget, event_cap=event_cap)
        out.append(sim.run())
    return out


def footprint(res):
    """What a faulty re-execution needs to know about its fault-free twin."""
    return {
        "opened": res["opened"],
        "lines": res["lines"],
        "listed": res["listed"],
        "out_len": res["out_len"],
        "steps": res["steps"],
        "overlay_write_steps": res.get("overlay_write_steps", []),
    }


def executable_lines(path):
    """Line numbers of the tool that carry code (from the compiled code objects)."""
    with open(path, "rb") as f:
        code = compile(f.read(), path, "exec")
    lines = set()
    todo = [code]
    while todo:
        c = todo.pop()
        for _, _, ln in c.co_lines():
            if ln is not None:
                lines.add(ln)
        for k in c.co_consts:
            if hasattr(k, "co_lines"):
                todo.append(k)
    return lines


def run_interleaved(inv_a, inv_b, permille, step_budget=DEFAULT_STEP_BUDGET, event_cap=DEFAULT_EVENT_CAP):
    """Two generator processes overlapping in time on one simulated machine, with one preemption:
    A runs until its k-th simulated system call (k = permille of the calls a solo run of A makes),
    is descheduled there, B runs from start to finish, then A continues.  The two share the
    overlay (whatever either writes is visible to the other, through shared inodes, as on a real
    disk).  A runs in its own thread and is blocked while B runs, so the schedule is exact."""
    import threading as _th

    solo, _ = Sim(dict(inv_a), step_budget=step_budget, event_cap=event_cap).run()
    total = max(1, solo["yields"])
    k = max(1, min(total, (total * permille) // 1000))
    overlay = Overlay()
    sim_a = Sim(inv_a, overlay=overlay, step_budget=step_budget, event_cap=event_cap)
    sim_a.pause_at = k
    sim_a.parked = _th.Event()
    sim_a.resume = _th.Event()
    box = {}

    def run_a():
        try:
            box["out"] = sim_a.run()
        except BaseException as e:  # pragma: no cover - simulator bug
            box["error"] = e
        finally:
            sim_a.parked.set()

    t = _th.Thread(target=run_a, daemon=True)
    t.start()
    sim_a.parked.wait()
    reached = t.is_alive()
    sim_b = Sim(inv_b, overlay=overlay, step_budget=step_budget, event_cap=event_cap)
    out_b = sim_b.run()
    sim_a.resume.set()
    t.join()
    if "error" in box:
        raise box["error"]
    res_a, data_a = box["out"]
    res_a["preempted_at"] = k
    res_a["preempted_of"] = total
    res_a["preemption_reached"] = reached
    return (res_a, data_a), out_b
