"""A unit header that appears in the tree between two invocations of a session (a contributor adds
a unit, a branch is switched): it exists only in the simulated machine - planted in the overlay
file system under au/code/au/units/ for the invocations whose environment says so - and the
multi-header build of the probe gets the same two files next to its sources.

The text is the library's own pattern for a unit header (fathoms.hh with other names)."""

STEM = "sim_ells"
TYPE = "SimElls"

_LICENCE = """// Copyright 2024 Aurora Operations, Inc.
//
// Licensed under the Apache License, Version 2.0 (the "License");
// you may not use this file except in compliance with the License.
// You may obtain a copy of the License at
//
//       http://www.apache.org/licenses/LICENSE-2.0
//
// Unless required by applicable law or agreed to in writing, software
// distributed under the License is distributed on an "AS IS" BASIS,
// WITHOUT WARRANTIES OR CONDITIONS OF ANY KIND, either express or implied.
// See the License for the specific language governing permissions and
// limitations under the License.

"""

HEADER = _LICENCE + """#pragma once

#include "au/units/sim_ells_fwd.hh"
// Keep corresponding `_fwd.hh` file on top.

#include "au/quantity.hh"
#include "au/sim_ell_detail.hh"
#include "au/unit_symbol.hh"
#include "au/units/seconds.hh"

namespace au {

template <typename T>
struct SimEllsLabel {
    static constexpr const char label[] = "simell";
};
template <typename T>
constexpr const char SimEllsLabel<T>::label[];
struct SimElls : decltype(Seconds{} * mag<45>() * detail::SimEllScale{}), SimEllsLabel<void> {
    using SimEllsLabel<void>::label;
};
constexpr auto sim_ell = SingularNameFor<SimElls>{};
constexpr auto sim_ells = QuantityMaker<SimElls>{};

namespace symbols {
constexpr auto simell = SymbolFor<SimElls>{};
}
}  // namespace au
"""

FWD = _LICENCE + """#pragma once

namespace au {

struct SimElls;

}  // namespace au
"""

# A header the unit header includes and nobody names on a command line: reached transitively only.
DETAIL = _LICENCE + """#pragma once

#include "au/magnitude.hh"

namespace au {
namespace detail {
using SimEllScale = decltype(mag<1>());
}  // namespace detail
}  // namespace au
"""
DETAIL_NAME = "au/sim_ell_detail.hh"

FILES = {"au/units/%s.hh" % STEM: HEADER, "au/units/%s_fwd.hh" % STEM: FWD, DETAIL_NAME: DETAIL}

# A second revision of the same header (a release unpacked over a vendored copy, a branch switch,
# `cp -p` of a colleague's file): another magnitude and another label, so that a generator which
# serves the first revision from anything it remembered is seen by the probe's output.
HEADER_REV2 = HEADER.replace("mag<45>()", "mag<47>()").replace('"simell"', '"simel2"')
assert HEADER_REV2 != HEADER
# ... and a second revision of the transitively reached header only (the unit header itself, the
# file a command line names, keeps its bytes and its time stamp)
DETAIL_REV2 = DETAIL.replace("mag<1>()", "mag<3>()")
assert DETAIL_REV2 != DETAIL

BASE_MTIME = 1_800_000_000
_MTIME_SHIFT = {"older": -86400, "equal": 0, "newer": 150_000_000}  # "newer" is later than anything the tool wrote in between (the overlay stamps its files from 1.9e9)


def rev_of(spec):
    """`added_unit` in a plan is True (first revision) or
    {"rev": 2, "mtime": older|equal|newer, "where": direct|transitive}."""
    return int(spec.get("rev", 1)) if isinstance(spec, dict) else 1


def files(spec):
    if rev_of(spec) == 2:
        if spec.get("where") == "transitive":
            return dict(FILES, **{DETAIL_NAME: DETAIL_REV2})
        return dict(FILES, **{"au/units/%s.hh" % STEM: HEADER_REV2})
    return FILES


def mtime_of(spec):
    if isinstance(spec, dict) and rev_of(spec) == 2:
        return BASE_MTIME + _MTIME_SHIFT[spec.get("mtime", "older")]
    return BASE_MTIME


def probe_lines():
    return ['    std::printf("added-unit %d [%s]\\n", au::sim_ells(2).in(au::seconds), au::unit_label(au::SimElls{}));']
