"""Edge programs: small complete programs at the rim of the public API - several of them taken
from docs/troubleshooting.md, i.e. programs the library documents as *rejected*.  C20 says that
any program using the public API is "accepted or rejected alike, with identical observable
results" under both packagings and all six compiler x standard configurations; the probe program
of probe.py can only contain code that compiles, so programs that are meant to be rejected (or
that sit on a documented hard error) get this separate, small matrix.

Each program is built against the multi-header tree and against the default single-file package
under all six configurations.  Whatever the verdict is on a given tree - accepted or rejected -
it must be the same everywhere, and where the program is accepted its output must be the same.
"""
from concurrent.futures import ThreadPoolExecutor

from . import oracle as _oracle

HEAD = r"""
#include <cstdio>
#include <type_traits>
using namespace au;
"""

PROGRAMS = {}
# Programs written against ONE header of the tree (plus the unit headers they name) instead of the
# umbrella au/au.hh: what `#include`s the multi-header build gets.  The single-file build always
# gets the whole package - that is the point: a header that compiles alone but whose API can only
# be *used* once some other header has been seen works in the package and not in the tree.
MULTI_INCLUDES = {}


def _p(name, body, multi_includes=None):
    PROGRAMS[name] = HEAD + body.strip("\n") + "\n"
    if multi_includes:
        MULTI_INCLUDES[name] = list(multi_includes)


# docs/troubleshooting.md, "Broken strict total ordering": two distinct units of equal size
_p("tie_units_anonymous_namespace", r"""
namespace shop {
struct Quartermin : decltype(Minutes{} / mag<4>()) {
    static constexpr const char label[] = "qmin";
};
constexpr const char Quartermin::label[];
constexpr auto quartermin = QuantityMaker<Quartermin>{};
}  // namespace shop
namespace {
struct Fifteensec : decltype(Seconds{} * mag<15>()) {
    static constexpr const char label[] = "fsec";
};
constexpr const char Fifteensec::label[];
constexpr auto fifteensec = QuantityMaker<Fifteensec>{};
}  // namespace
int main() {
    std::printf("%d [%s] [%s]\n", int(shop::quartermin(10) == fifteensec(10)), unit_label((shop::quartermin(1) + fifteensec(1)).unit), unit_label(shop::Quartermin{} * Fifteensec{}));
    return 0;
}
""")

_p("tie_units_template_spelling", r"""
template <typename T>
struct Tag {};
template <typename T>
struct Scaled : decltype(Seconds{} * mag<15>()) {
    static constexpr const char label[] = "scaled";
};
template <typename T>
constexpr const char Scaled<T>::label[];
struct Plain : decltype(Minutes{} / mag<4>()) {
    static constexpr const char label[] = "plain";
};
constexpr const char Plain::label[];
int main() {
    using A = Scaled<Tag<Tag<long>>>;
    std::printf("[%s] [%s]\n", unit_label(A{} * Plain{}), unit_label(common_unit(Plain{}, A{})));
    return 0;
}
""")

_p("tie_units_user_namespace", r"""
namespace mine {
struct Quartermin : decltype(Minutes{} / mag<4>()) {};
constexpr auto quartermin = QuantityMaker<Quartermin>{};
struct Fifteensec : decltype(Seconds{} * mag<15>()) {};
constexpr auto fifteensec = QuantityMaker<Fifteensec>{};
}  // namespace mine
int main() {
    std::printf("%d [%s]\n", int(mine::quartermin(10) < mine::fifteensec(11)), unit_label(common_unit(mine::Quartermin{}, mine::Fifteensec{})));
    return 0;
}
""")

_p("tie_units_with_avoidance", r"""
struct Quartermin : decltype(Minutes{} / mag<4>()) {};
constexpr auto quartermin = QuantityMaker<Quartermin>{};
struct Fifteensec : decltype(Seconds{} * mag<15>()) {};
constexpr auto fifteensec = QuantityMaker<Fifteensec>{};
namespace au { namespace detail {
template <>
struct UnitAvoidance<::Fifteensec> : std::integral_constant<int, 100> {};
}}
int main() {
    std::printf("%d [%s]\n", int(quartermin(10) == fifteensec(10)), unit_label(Quartermin{} * Fifteensec{}));
    return 0;
}
""")

_p("dangerous_conversion", r"""
int main() {
    const QuantityI32<Milli<Seconds>> x = hours(1);
    std::printf("%d\n", x.in(milli(seconds)));
    return 0;
}
""")

_p("integer_division", r"""
int main() {
    std::printf("%d\n", (minutes(10) / seconds(3)).in(minutes / seconds));
    return 0;
}
""")

_p("different_dimensions", r"""
int main() {
    std::printf("%d\n", int(seconds(1) < radians(2)));
    return 0;
}
""")

_p("float_to_int_implicit", r"""
int main() {
    const QuantityI32<Seconds> x = seconds(1.5);
    std::printf("%d\n", x.in(seconds));
    return 0;
}
""")

_p("point_plus_point", r"""
int main() {
    const auto p = make_quantity_point<Seconds>(1) + make_quantity_point<Seconds>(2);
    std::printf("%d\n", p.in(Seconds{}));
    return 0;
}
""")

_p("raw_number_comparison", r"""
int main() {
    std::printf("%d\n", int(seconds(1) < 2));
    return 0;
}
""")

_p("unitless_to_raw", r"""
int main() {
    const double r = seconds(6.0) / seconds(4.0);
    const int k = minutes(1) / unblock_int_div(seconds(60));
    std::printf("%.17g %d\n", r, k);
    return 0;
}
""")

_p("zero_assigned_to_point", r"""
int main() {
    const QuantityPoint<Seconds, int> p = ZERO;
    std::printf("%d\n", p.in(Seconds{}));
    return 0;
}
""")


_p("only_chrono_interop", r"""
#include <chrono>
int main() {
    const auto ns = as_quantity(std::chrono::nanoseconds{1500});
    const auto us = as_quantity(std::chrono::microseconds{7});
    const auto ms = as_quantity(std::chrono::milliseconds{250});
    const auto s = as_quantity(std::chrono::seconds{3});
    const auto mi = as_quantity(std::chrono::minutes{2});
    const auto h = as_quantity(std::chrono::hours{1});
    const QuantityD<Minutes> m = std::chrono::milliseconds{90000};
    const std::chrono::duration<double, std::milli> back = seconds(1.5);
    std::printf("%lld %lld %lld %lld %lld %lld | %.17g %.17g | %d %d %lld\n", static_cast<long long>(ns.in(ns.unit)), static_cast<long long>(us.in(us.unit)),
                static_cast<long long>(ms.in(ms.unit)), static_cast<long long>(s.in(seconds)), static_cast<long long>(mi.in(minutes)), static_cast<long long>(h.in(hours)),
                m.in(minutes), back.count(), int(std::chrono::microseconds{999} < seconds(1)), int(hours(1) == std::chrono::minutes{60}),
                static_cast<long long>((seconds(2) + std::chrono::milliseconds{250}).in(ms.unit)));
    return 0;
}
""", multi_includes=["au/chrono_interop.hh"])

_p("only_math", r"""
int main() {
    std::printf("%d %d %d %.17g %.17g %d %d %d %.17g %d\n", abs(seconds(-3)).in(seconds), max(seconds(61), minutes(1)).in(seconds), clamp(seconds(200), minutes(1), minutes(2)).in(seconds),
                fmod(seconds(7.5), seconds(2.0)).in(seconds), remainder(seconds(7.5), seconds(2.0)).in(seconds), round_in<int>(minutes, seconds(89.0)), floor_in<int>(minutes, seconds(119.0)),
                ceil_in<int>(minutes, seconds(61.0)), sqrt(squared(seconds)(16.0)).in(seconds), int(isnan(seconds(0.0) / 1.0)));
    std::printf("%d %d %.17g\n", int_pow<3>(seconds(2)).in(cubed(seconds)), int(std::numeric_limits<Quantity<Seconds, int>>::max() > minutes(1)), inverse_as(seconds, seconds(4.0) / squared(seconds)(1.0) * seconds(1.0) / seconds(1.0)).in(seconds));
    return 0;
}
""", multi_includes=["au/math.hh", "au/units/seconds.hh", "au/units/minutes.hh"])

_p("only_prefix", r"""
int main() {
    std::printf("%d %d [%s] [%s] %.17g\n", milli(seconds)(5).in(micro(seconds)), kilo(seconds)(2).in(seconds), unit_label(kilo(seconds)), unit_label(Nano<Seconds>{}), mega(seconds)(1.5).in(kilo(seconds)));
    std::printf("%d %d\n", kibi(seconds)(1).in(seconds), int(centi(seconds)(100) == seconds(1)));
    return 0;
}
""", multi_includes=["au/prefix.hh", "au/units/seconds.hh"])

_p("only_constant", r"""
int main() {
    constexpr auto rate = make_constant(minutes / seconds);
    std::printf("%d %.17g %d\n", rate.as<int>(seconds / seconds).in(seconds / seconds), (2.5 * rate).in(seconds / seconds), int(rate.in<int>(minutes / seconds)));
    std::printf("%d %.17g\n", (seconds(3) * rate).in(minutes), (minutes(1.0) / rate).in(seconds));
    return 0;
}
""", multi_includes=["au/constant.hh", "au/units/seconds.hh", "au/units/minutes.hh"])

_p("only_quantity_point", r"""
int main() {
    const auto a = make_quantity_point<Seconds>(90);
    const auto b = make_quantity_point<Minutes>(1);
    std::printf("%d %d %d %d %zu\n", (a - b).in(seconds), int(a > b), (b + seconds(30)).in(Seconds{}), int(a.coerce_as(Minutes{}) == b), sizeof(a - b));
    return 0;
}
""", multi_includes=["au/quantity_point.hh", "au/units/seconds.hh", "au/units/minutes.hh"])

_p("only_io", r"""
#include <sstream>
int main() {
    std::ostringstream oss;
    oss << seconds(3) << '|' << minutes(1.5) << '|' << make_quantity_point<Seconds>(4) << '|' << ZERO;
    std::printf("%s\n", oss.str().c_str());
    return 0;
}
""", multi_includes=["au/io.hh", "au/quantity_point.hh", "au/units/seconds.hh", "au/units/minutes.hh"])


# Functions the library declares constexpr but implements with <cmath> calls: usable in constant
# expressions only where the compiler treats those calls as builtins.  (Kept out of the general
# fragment pool on purpose: a probe that one compiler rejects would mask everything else in it.)
_p("constexpr_copysign", r"""
int main() {
    constexpr auto x = copysign(seconds(3.0), -1.0);
    constexpr auto y = copysign(2.0, seconds(-1.0));
    std::printf("%.17g %.17g\n", x.in(seconds), y);
    return 0;
}
""")

_p("constexpr_isnan", r"""
int main() {
    constexpr bool a = isnan(seconds(1.0));
    constexpr bool b = isnan(make_quantity_point<Seconds>(2.0f));
    std::printf("%d %d\n", int(a), int(b));
    return 0;
}
""")

_p("constexpr_truncation_check", r"""
int main() {
    constexpr bool t = will_conversion_truncate<int>(seconds(2.5), seconds);
    constexpr bool u = will_conversion_truncate<int>(seconds(2.0), seconds);
    constexpr bool l = is_conversion_lossy<long>(minutes(0.25f), seconds);
    std::printf("%d %d %d\n", int(t), int(u), int(l));
    return 0;
}
""")


# docs/reference/quantity.md: a unitless Quantity converts implicitly to its Rep.  The conversion
# is a conversion function *template*, which g++ does not consider for the operands of built-in
# operators.  (An open known finding: in a program of its own, like the two above.)
_p("unitless_compound_assignment", r"""
int main() {
    double x = 1.0;
    x += make_quantity<UnitProductT<>>(2.5);
    const double y = make_quantity<UnitProductT<>>(4.0);
    std::printf("%.17g %.17g\n", x, y);
    return 0;
}
""")


# Programs for a build WITHOUT I/O support: the single-file build gets the `--noio` package, the
# multi-header build simply does not include au/io.hh.  What such programs do instead of using
# the library's stream inserters must keep working alike.
NOIO_PROGRAMS = set()


def _p_noio(name, body):
    _p(name, body, multi_includes=["au/au.hh"])
    NOIO_PROGRAMS.add(name)


_p_noio("noio_own_printer", r"""
#include <iostream>
#include <sstream>
template <typename U, typename R>
std::ostream &operator<<(std::ostream &os, const au::Quantity<U, R> &q) {
    return os << q.in(U{}) << " [" << au::unit_label(U{}) << "]";
}
int main() {
    std::ostringstream oss;
    oss << seconds(90) << " / " << minutes(1.5);
    std::printf("%s\n", oss.str().c_str());
    return 0;
}
""")

_p_noio("noio_unitless_stream", r"""
#include <iostream>
#include <sstream>
int main() {
    std::ostringstream oss;
    oss << make_quantity<UnitProductT<>>(0.75) << ' ' << (seconds(6.0) / seconds(4.0));
    std::printf("%s\n", oss.str().c_str());
    return 0;
}
""")

_p_noio("noio_streaming_is_rejected", r"""
#include <iostream>
int main() {
    std::cout << seconds(3) << std::endl;
    return 0;
}
""")


def names():
    return sorted(PROGRAMS)


def judge(builder, name, single_header, toolchains):
    """Build one edge program in both packagings under every configuration.  Returns
    (violation_class | None, detail)."""
    text = PROGRAMS[name]
    jobs = []
    for tc in toolchains:
        inc = "".join('#include "%s"\n' % h for h in MULTI_INCLUDES.get(name, ["au/au.hh"]))
        jobs.append((tc, "multi", None, {"edge.cc": inc + text}))
        jobs.append((tc, "single", single_header, {"edge.cc": '#include "au.hh"\n#include "au.hh"\n' + text}))
    with ThreadPoolExecutor(6) as ex:
        outs = list(ex.map(lambda j: builder.build(j[1], j[2], j[3], j[0]), jobs))
    table = {}
    for (tc, variant, _, _), r in zip(jobs, outs):
        if r.get("harness_error"):
            return "HARNESS", {"program": name, "diag": r["diag"]}
        table["%s/%s" % (_oracle.toolchain_id(tc), variant)] = ("accepted", r["stdout"], r["rc"]) if r["ok"] else ("rejected", None, None)
    detail = {"program": name, "table": {k: (v[0] if v[0] == "rejected" else "accepted: " + (v[1] or "").strip()[:120]) for k, v in table.items()}}
    diag = {"%s/%s" % (_oracle.toolchain_id(j[0]), j[1]): r["diag"][:300] for j, r in zip(jobs, outs) if not r["ok"]}
    detail["diag"] = dict(list(diag.items())[:2])
    # same packaging, different toolchain
    for variant in ("multi", "single"):
        vals = {k: v for k, v in table.items() if k.endswith("/" + variant)}
        if len({v for v in vals.values()}) > 1:
            acc = sorted({k.split("/")[0] + "/" + k.split("/")[1] for k, v in vals.items() if v[0] == "accepted"})
            rej = sorted({k.split("/")[0] + "/" + k.split("/")[1] for k, v in vals.items() if v[0] == "rejected"})

            def short(cfgs):
                # "g++" when every standard of that compiler is in the set, else the full names
                out = []
                for comp in sorted({c.split("/")[0] for c in cfgs}):
                    mine = [c for c in cfgs if c.split("/")[0] == comp]
                    allof = [k for k in {kk.split("/")[0] + "/" + kk.split("/")[1] for kk in vals} if k.split("/")[0] == comp]
                    out.append(comp if len(mine) == len(allof) else ",".join(mine))
                return " ".join(out)

            detail["what"] = "%s packaging: configurations disagree: accepts=[%s] rejects=[%s]" % (variant, short(acc), short(rej))
            return "TOOLCHAIN_DEPENDENT", detail
    # same toolchain, different packaging
    for tc in toolchains:
        m = table["%s/multi" % _oracle.toolchain_id(tc)]
        s = table["%s/single" % _oracle.toolchain_id(tc)]
        if m != s:
            detail["what"] = "packagings disagree under %s" % _oracle.toolchain_id(tc)
            if m[0] == "accepted" and s[0] == "rejected":
                return "NOT_SELF_CONTAINED", detail
            if m[0] == "rejected" and s[0] == "accepted":
                return "MULTI_REJECTS", detail
            return "RESULT_MISMATCH", detail
    return None, detail
