"""Edge programs: small complete programs at the rim of the public API - several of them taken
from docs/troubleshooting.md, i.e. programs the library documents as *rejected*.  C20 says that
any program using the public API is "accepted or rejected alike, with identical observable
results" under both packagings and all six compiler x standard configurations; the probe program
of probe.py can only contain code that compiles, so programs that are meant to be rejected (or
that sit on a documented hard error) get this separate, small matrix.

Each program is built against the multi-header tree and against the default single-file package
under all six configurations.  Whatever the verdict is on a given tree - accepted or rejected -
it must be the same everywhere, and where the program is accepted its output must be the same.
"""
from concurrent.futures import ThreadPoolExecutor

from . import oracle as _oracle

HEAD = r"""
#include <cstdio>
#include <type_traits>
using namespace au;
"""

PROGRAMS = {}


def _p(name, body):
    PROGRAMS[name] = HEAD + body.strip("\n") + "\n"


# docs/troubleshooting.md, "Broken strict total ordering": two distinct units of equal size
_p("tie_units_anonymous_namespace", r"""
namespace shop {
struct Quartermin : decltype(Minutes{} / mag<4>()) {
    static constexpr const char label[] = "qmin";
};
constexpr const char Quartermin::label[];
constexpr auto quartermin = QuantityMaker<Quartermin>{};
}  // namespace shop
namespace {
struct Fifteensec : decltype(Seconds{} * mag<15>()) {
    static constexpr const char label[] = "fsec";
};
constexpr const char Fifteensec::label[];
constexpr auto fifteensec = QuantityMaker<Fifteensec>{};
}  // namespace
int main() {
    std::printf("%d [%s] [%s]\n", int(shop::quartermin(10) == fifteensec(10)), unit_label((shop::quartermin(1) + fifteensec(1)).unit), unit_label(shop::Quartermin{} * Fifteensec{}));
    return 0;
}
""")

_p("tie_units_template_spelling", r"""
template <typename T>
struct Tag {};
template <typename T>
struct Scaled : decltype(Seconds{} * mag<15>()) {
    static constexpr const char label[] = "scaled";
};
template <typename T>
constexpr const char Scaled<T>::label[];
struct Plain : decltype(Minutes{} / mag<4>()) {
    static constexpr const char label[] = "plain";
};
constexpr const char Plain::label[];
int main() {
    using A = Scaled<Tag<Tag<long>>>;
    std::printf("[%s] [%s]\n", unit_label(A{} * Plain{}), unit_label(common_unit(Plain{}, A{})));
    return 0;
}
""")

_p("tie_units_user_namespace", r"""
namespace mine {
struct Quartermin : decltype(Minutes{} / mag<4>()) {};
constexpr auto quartermin = QuantityMaker<Quartermin>{};
struct Fifteensec : decltype(Seconds{} * mag<15>()) {};
constexpr auto fifteensec = QuantityMaker<Fifteensec>{};
}  // namespace mine
int main() {
    std::printf("%d [%s]\n", int(mine::quartermin(10) < mine::fifteensec(11)), unit_label(common_unit(mine::Quartermin{}, mine::Fifteensec{})));
    return 0;
}
""")

_p("tie_units_with_avoidance", r"""
struct Quartermin : decltype(Minutes{} / mag<4>()) {};
constexpr auto quartermin = QuantityMaker<Quartermin>{};
struct Fifteensec : decltype(Seconds{} * mag<15>()) {};
constexpr auto fifteensec = QuantityMaker<Fifteensec>{};
namespace au { namespace detail {
template <>
struct UnitAvoidance<::Fifteensec> : std::integral_constant<int, 100> {};
}}
int main() {
    std::printf("%d [%s]\n", int(quartermin(10) == fifteensec(10)), unit_label(Quartermin{} * Fifteensec{}));
    return 0;
}
""")

_p("dangerous_conversion", r"""
int main() {
    const QuantityI32<Milli<Seconds>> x = hours(1);
    std::printf("%d\n", x.in(milli(seconds)));
    return 0;
}
""")

_p("integer_division", r"""
int main() {
    std::printf("%d\n", (minutes(10) / seconds(3)).in(minutes / seconds));
    return 0;
}
""")

_p("different_dimensions", r"""
int main() {
    std::printf("%d\n", int(seconds(1) < radians(2)));
    return 0;
}
""")

_p("float_to_int_implicit", r"""
int main() {
    const QuantityI32<Seconds> x = seconds(1.5);
    std::printf("%d\n", x.in(seconds));
    return 0;
}
""")

_p("point_plus_point", r"""
int main() {
    const auto p = make_quantity_point<Seconds>(1) + make_quantity_point<Seconds>(2);
    std::printf("%d\n", p.in(Seconds{}));
    return 0;
}
""")

_p("raw_number_comparison", r"""
int main() {
    std::printf("%d\n", int(seconds(1) < 2));
    return 0;
}
""")

_p("unitless_to_raw", r"""
int main() {
    const double r = seconds(6.0) / seconds(4.0);
    const int k = minutes(1) / unblock_int_div(seconds(60));
    std::printf("%.17g %d\n", r, k);
    return 0;
}
""")

_p("zero_assigned_to_point", r"""
int main() {
    const QuantityPoint<Seconds, int> p = ZERO;
    std::printf("%d\n", p.in(Seconds{}));
    return 0;
}
""")


def names():
    return sorted(PROGRAMS)


def judge(builder, name, single_header, toolchains):
    """Build one edge program in both packagings under every configuration.  Returns
    (violation_class | None, detail)."""
    text = PROGRAMS[name]
    jobs = []
    for tc in toolchains:
        jobs.append((tc, "multi", None, {"edge.cc": '#include "au/au.hh"\n' + text}))
        jobs.append((tc, "single", single_header, {"edge.cc": '#include "au.hh"\n#include "au.hh"\n' + text}))
    with ThreadPoolExecutor(6) as ex:
        outs = list(ex.map(lambda j: builder.build(j[1], j[2], j[3], j[0]), jobs))
    table = {}
    for (tc, variant, _, _), r in zip(jobs, outs):
        if r.get("harness_error"):
            return "HARNESS", {"program": name, "diag": r["diag"]}
        table["%s/%s" % (_oracle.toolchain_id(tc), variant)] = ("accepted", r["stdout"], r["rc"]) if r["ok"] else ("rejected", None, None)
    detail = {"program": name, "table": {k: (v[0] if v[0] == "rejected" else "accepted: " + (v[1] or "").strip()[:120]) for k, v in table.items()}}
    diag = {"%s/%s" % (_oracle.toolchain_id(j[0]), j[1]): r["diag"][:300] for j, r in zip(jobs, outs) if not r["ok"]}
    detail["diag"] = dict(list(diag.items())[:2])
    # same packaging, different toolchain
    for variant in ("multi", "single"):
        vals = {k: v for k, v in table.items() if k.endswith("/" + variant)}
        if len({v for v in vals.values()}) > 1:
            detail["what"] = "%s packaging: configurations disagree" % variant
            return "TOOLCHAIN_DEPENDENT", detail
    # same toolchain, different packaging
    for tc in toolchains:
        m = table["%s/multi" % _oracle.toolchain_id(tc)]
        s = table["%s/single" % _oracle.toolchain_id(tc)]
        if m != s:
            detail["what"] = "packagings disagree under %s" % _oracle.toolchain_id(tc)
            if m[0] == "accepted" and s[0] == "rejected":
                return "NOT_SELF_CONTAINED", detail
            if m[0] == "rejected" and s[0] == "accepted":
                return "MULTI_REJECTS", detail
            return "RESULT_MISMATCH", detail
    return None, detail
